"""sched.py — checks of the scheduler group (C01 C02 C07 C08 C09 C10): generate histories, run the
implementation under virtual time, evaluate the Coq model on the same histories inside Coq, apply the
property oracles to what the implementation did."""
from __future__ import annotations

import collections
import json
import random
import subprocess
import sys
from pathlib import Path

from harness import sched_oracle as O
from harness.sched_coq import cases_file, coq_case, debug_file
from harness.sched_gen import gen_history
from lib import coqrun

VERIF = Path(__file__).resolve().parent.parent
CORPUS = VERIF / 'corpus'

COQ_TARGETS = ['theories/SchedCases.vo', 'theories/AsyncExecCases.vo', 'theories/AsyncExecFacts.vo']

PROFILES = {
    'C01': ['mixed', 'order', 'countdown', 'store', 'mixed'],
    'C02': ['mixed', 'store', 'order', 'failcreate', 'countdown'],
    'C07': ['mixed', 'store', 'countdown', 'store'],
    'C08': ['countdown', 'countdown', 'mixed'],
    'C09': ['order', 'order', 'mixed'],
    'C10': ['fail', 'fail', 'fail', 'failcreate'],
}
COUNTS = {'quick': 700, 'thorough': 12000}
SHARD = 50

ASSUMPTIONS = {p: [
    'loop clock and wall clock are one variable (no NTP steps); integer-nanosecond instants (a 2^-9 s grid plus off-grid advances)',
    'user callables do not call the scheduler re-entrantly (as the property states)',
    'theorems hold for runs that do not exhaust the model fuel (fuel 400 in the correspondence)',
] for p in PROFILES}
TRUSTED_EXTRA = {}
try:
    from harness import asyncexec as _ax
    ASSUMPTIONS['C10'] = ASSUMPTIONS['C10'] + _ax.ASSUMPTIONS['C10']
    TRUSTED_EXTRA['C10'] = list(_ax.TRUSTED_EXTRA['C10'])
except ImportError:      # the layer is optional for the other properties of the group
    pass

RULES = {
    'C01': 'history non-trivial iff at least one callable started in it; distinct by (ops, observations) hash',
    'C02': 'history non-trivial iff it contains a cancel/pause/stop/disable or a failed creation and at least one start',
    'C07': 'history non-trivial iff a job changed status at least 3 times or a callback fired',
    'C08': 'history non-trivial iff a countdown or one-shot job started',
    'C09': 'history non-trivial iff some operation started two or more jobs',
    'C10': 'history non-trivial iff an injected failure fired',
}


def _impl_run(cases: list[dict], scratch: Path, tag: str, nofail: bool = False) -> list:
    """run the implementation in a subprocess (fresh interpreter, PYTHONPATH = /repo/src)"""
    # one subprocess per system time zone (a history may ask for a zone that is about to set its clocks back)
    zones: dict[str, list[int]] = {}
    for i, c in enumerate(cases):
        zones.setdefault(c.get('tz', 'UTC'), []).append(i)
    out: list = [None] * len(cases)
    for zi, (tz, idx) in enumerate(sorted(zones.items())):
        inp = scratch / f'impl_in_{tag}_{zi}.json'
        outp = scratch / f'impl_out_{tag}_{zi}.json'
        inp.write_text(json.dumps([cases[i] for i in idx]))
        env = {'PYTHONPATH': f'{coqrun.REPO}/src:{VERIF}', 'PYTHONHASHSEED': '0', 'PATH': '/usr/bin:/bin', 'TZ': tz}
        r = subprocess.run(['/venv/bin/python', '-u', '-m', 'harness.sched_runner', str(inp), str(outp),
                            '1' if nofail else '0'], cwd=VERIF, env=env, capture_output=True, text=True, timeout=900)
        if r.returncode != 0:
            raise RuntimeError(f'implementation runner failed (TZ={tz}): ' + r.stderr[-3000:])
        for i, res in zip(idx, json.loads(outp.read_text())):
            out[i] = res
    return out


def _nontrivial(prop: str, case, obs, raised) -> bool:
    starts = [sum(1 for e in o['evs'] if e[0] == 'exec') for o in obs]
    if prop == 'C01':
        return sum(starts) > 0
    if prop == 'C02':
        ctl = any(op[0] in ('cancel', 'pause') or (op[0] == 'enable' and not op[1]) for op in case['ops'])
        failed = any(op[0] in O.CREATE and o['out'] != 'Done' for op, o in zip(case['ops'], obs))
        return sum(starts) > 0 and (ctl or failed)
    if prop == 'C07':
        changes = sum(1 for a, b in zip(obs, obs[1:]) if a['jobs'] != b['jobs'][:len(a['jobs'])])
        return changes >= 3 or any(e[0] in ('cbu', 'cbf') for o in obs for e in o['evs'])
    if prop == 'C08':
        kinds = {}
        idx = 0
        for op, o in zip(case['ops'], obs):
            if op[0] in O.CREATE and o['out'] not in ('EKeyError', 'EValueError'):
                kinds[idx] = op[0]
                idx += 1
        return any(e[0] == 'exec' and kinds.get(e[1]) in ('once', 'countdown') for o in obs for e in o['evs'])
    if prop == 'C09':
        return max(starts, default=0) >= 2
    if prop == 'C10':
        return bool(raised) or any(e[0] == 'handler' for o in obs for e in o['evs'])
    return True


def _oracle(prop: str, case, obs, raised, obs_nofail=None) -> list:
    if prop == 'C10':
        return O.c10(case, obs, raised, obs_nofail)
    return O.ORACLES[prop](case, obs)


def _corpus(prop: str) -> list[dict]:
    out = []
    d = CORPUS / prop
    if d.is_dir():
        for p in sorted(d.glob('*.json')):
            out.append(json.loads(p.read_text())['case'])
    return out


PROBES = {'C10': ['async', 'handler'], 'C08': ['async'], 'C07': ['removeall'], 'C02': ['removeall']}


def _async_probe(seed: int, n: int, which: str) -> list:
    """scenario oracles of harness/sched_async.py: 'async' = C10 / C08 through the real AsyncExecutor and task
    managers, 'handler' = C10 with an exception handler that reacts, 'removeall' = AsyncScheduler.remove_all()
    against the history it is modelled as (SchedRemoveAll.v)"""
    env = {'PYTHONPATH': f'{coqrun.REPO}/src:{VERIF}', 'PYTHONHASHSEED': '0', 'PATH': '/usr/bin:/bin', 'TZ': 'UTC'}
    r = subprocess.run(['/venv/bin/python', '-m', 'harness.sched_async', str(n), str(seed), which], cwd=VERIF, env=env,
                       capture_output=True, text=True, timeout=600)
    case = {'kind': 'scenario', 'which': which, 'seed': seed, 'n': n}
    if r.returncode != 0:
        return [{'what': f'{which} scenarios crashed: ' + r.stderr[-600:], 'case': case}]
    return [{'what': w, 'case': case} for w in json.loads(r.stdout)]


def run(prop: str, tier: str, seed: int, scratch: Path, replay=None, model_ok=True) -> dict:
    rng = random.Random(f'{prop}-{seed}')
    if replay:
        payload = json.loads(Path(replay).read_text())
        if isinstance(payload.get('case'), dict) and payload['case'].get('kind') == 'scenario':
            c = payload['case']
            sv = _async_probe(c['seed'], c['n'], c['which'])
            return {'evaluations': c['n'], 'distinct_nontrivial': c['n'], 'rule': 'scenario replay', 'samples': [c],
                    'distribution': {}, 'corr_failures': [], 'spec_violations': sv, 'extra': {'replay': 'scenario'}}
        if isinstance(payload.get('case'), dict) and 'mgr' in payload['case'] and 'evs' in payload['case']:
            from harness import asyncexec      # a trace of the asynchronous-executor layer
            return asyncexec.run(prop, tier, seed, scratch, replay=replay, model_ok=model_ok)
        histories = [payload['case']]
    else:
        n = COUNTS[tier]
        profs = PROFILES[prop]
        histories = _corpus(prop) + [gen_history(rng, profs[i % len(profs)]) for i in range(n)]
    results = _impl_run(histories, scratch, 'main')
    nofail = None
    if prop == 'C10':
        nofail = _impl_run([r[0] for r in results], scratch, 'nofail', nofail=True)

    spec_violations = []
    dist = collections.Counter()
    outcomes = collections.Counter()
    seen = set()
    nontrivial = 0
    lens = collections.Counter()
    for i, (ccase, obs, raised) in enumerate(results):
        for op, o in zip(ccase['ops'], obs):
            dist[op[0]] += 1
            outcomes[o['out']] += 1
        lens[len(ccase['ops']) // 10 * 10] += 1
        h = hash(json.dumps([ccase['ops'], obs], sort_keys=True))
        if _nontrivial(prop, ccase, obs, raised) and h not in seen:
            nontrivial += 1
        seen.add(h)
        bad = _oracle(prop, ccase, obs, raised, nofail[i][1] if nofail else None)
        for k, msg in bad[:1]:
            spec_violations.append({'what': msg, 'op_index': k, 'case': ccase, 'observed': obs[k],
                                    'all': [m for _, m in bad[:5]]})

    if not replay:
        for which in PROBES.get(prop, []):
            spec_violations += _async_probe(seed, 40 if tier == 'quick' else 400, which)

    # evaluate the model inside Coq on the same histories
    corr_failures = []
    wellformed_bad = []
    if model_ok:
        files = []
        for s in range(0, len(results), SHARD):
            p = scratch / f'cases_{s // SHARD}.v'
            p.write_text(cases_file([(c, o) for c, o, _ in results[s:s + SHARD]]))
            files.append(p)
        for p, rc, out in coqrun.eval_cases(files):
            base = int(p.stem.split('_')[1]) * SHARD
            if rc != 0:
                corr_failures.append({'file': p.name, 'error': out[-1500:]})
                continue
            flat = ' '.join(out.split())
            import re
            m1 = re.search(r'= (\[.*?\]) : list \(nat \* nat\)', flat)
            m2 = re.search(r'= (\[[^\]]*\]) : list nat', flat)
            if not m1 or not m2:
                corr_failures.append({'file': p.name, 'error': 'cannot parse: ' + flat[-500:]})
                continue
            mism = coqrun.parse_pairs(m1.group(1))
            for ci, k in mism:
                c, o, _ = results[base + ci]
                dout = ''
                if len(corr_failures) < 2:
                    dbg = scratch / f'debug_{base + ci}.v'
                    dbg.write_text(debug_file(coq_case(c, o), k))
                    _, dout = coqrun.coqc_file(dbg)
                corr_failures.append({'case': c, 'op_index': k, 'op': c['ops'][k], 'implementation': o[k],
                                      'model_vs_impl_coq': ' '.join(dout.split())[-3000:]})
            wf = coqrun.parse_nats(m2.group(1))
            wellformed_bad += [base + x for x in wf]
    else:
        corr_failures.append({'error': 'model does not build'})

    samples = []
    for ccase, obs, _ in results[:200]:
        if _nontrivial(prop, ccase, obs, _):
            samples.append({'ops': ccase['ops'][:25], 'store': ccase['store'], 'enabled': ccase['enabled'],
                            'started': [e for o in obs for e in o['evs'] if e[0] == 'exec'][:6]})
            if len(samples) >= 2:
                break
    res = {
        'evaluations': len(results), 'distinct_nontrivial': nontrivial, 'rule': RULES[prop], 'samples': samples,
        'corr_failures': corr_failures, 'spec_violations': spec_violations,
        'distribution': {'ops': dict(dist), 'outcomes': dict(outcomes), 'history_length': dict(lens),
                         'profiles': PROFILES[prop]},
        'extra': {'trace_checks_in_coq_failed': wellformed_bad,
                  'compared_per_operation': 'outcome, enabled, timer.when(), queue order, status+next_run of every job, '
                                            'store keys, callable/callback/handler/trigger events'},
    }
    if prop == 'C10' and not replay:
        # the asynchronous executor path: AsyncExecutor on the real task managers against AsyncExec.v
        from harness import asyncexec
        sub = Path(scratch) / 'asyncexec'
        sub.mkdir(exist_ok=True)
        ax = asyncexec.run(prop, tier, seed, sub, replay=None, model_ok=model_ok)
        res['evaluations'] += ax['evaluations']
        res['distinct_nontrivial'] += ax['distinct_nontrivial']
        res['corr_failures'] += [dict(c, layer='asyncexec') for c in ax['corr_failures']]
        res['spec_violations'] += ax['spec_violations']
        res['rule'] += ' | asynchronous executor traces: ' + ax['rule']
        res['samples'] += ax['samples'][:1]
        res['distribution']['asyncexec'] = ax['distribution']
        res['extra']['asyncexec'] = dict(ax['extra'], evaluations=ax['evaluations'],
                                         distinct_nontrivial=ax['distinct_nontrivial'])
    return res


def search(prop: str, seed: int, scratch: Path) -> list:
    """violation search on the implementation alone: the thorough generators with the property oracle"""
    rng = random.Random(f'search-{prop}-{seed}')
    profs = PROFILES[prop]
    histories = [gen_history(rng, profs[i % len(profs)]) for i in range(4000)]
    results = _impl_run(histories, scratch, 'search')
    nofail = _impl_run([r[0] for r in results], scratch, 'search_nofail', nofail=True) if prop == 'C10' else None
    out = []
    for i, (ccase, obs, raised) in enumerate(results):
        bad = _oracle(prop, ccase, obs, raised, nofail[i][1] if nofail else None)
        for k, msg in bad[:1]:
            out.append({'what': msg, 'op_index': k, 'case': ccase, 'observed': obs[k]})
    out.sort(key=lambda v: len(v['case']['ops']))
    if prop == 'C10':
        from harness import asyncexec
        sub = Path(scratch) / 'asyncexec_search'
        sub.mkdir(exist_ok=True)
        out += asyncexec.search(prop, seed, sub)
    return out


# --------------------------------------------------------------------------------------------------
def match_known(prop: str, v: dict, known: list) -> str | None:
    for f in known:
        if f.get('class') == 'F5' and prop == 'C10':
            # a trigger raising inside execute() re-queues the job with its stale next run
            o = v.get('observed') or {}
            evs = o.get('evs', [])
            if 'started' in v['what'] and 'for the same due time' in v['what']:
                j = int(v['what'].split()[1])
                idx = [i for i, e in enumerate(evs) if e[0] == 'exec' and e[1] == j]
                if len(idx) >= 2 and all(any(e[0] == 'handler' and e[1] == ['prod', j] for e in evs[a:b])
                                         for a, b in zip(idx, idx[1:])):
                    return f['id']
            if 'differs from the failure-free run' in v['what']:
                # consequence of the same defect in the same history (the handler bookkeeping - every raised
                # exception handed over exactly once - is NOT part of the class: it holds under F5 too)
                if any(e[0] == 'handler' and e[1][0] == 'prod' for ob in [o] for e in ob.get('evs', [])):
                    return f['id']
    return None


def replay_known(prop: str, f: dict, scratch: Path):
    if 'case' not in f:
        return None
    res = _impl_run([f['case']], scratch, 'known_' + f['id'])
    ccase, obs, raised = res[0]
    bad = _oracle(prop, ccase, obs, raised, None)
    return bool(bad)
