"""getinstant_impl.py — (subprocess side, TZ=<zone>) run C19 cases on the implementation through the public
API, under a patched clock, inside a running (virtual) event loop.

case: {'call': 'instant',   'now': ns, 'arg': A}              -> get_instant(A)  and  JobBuilder.once(A, f)
      {'call': 'countdown', 'now': ns, 'arg': A}              -> JobBuilder.countdown(A, f)
      {'call': 'interval',  'now': ns, 'start': A, 'iv': A}   -> TriggerBuilder.interval(start, iv)
      {'call': 'offset',    'now': ns, 'arg': A}              -> trigger.offset(A)
      {'call': 'jitter',    'now': ns, 'lo': A, 'hi': A|None} -> trigger.jitter(lo, hi)
with A = {'spec': [...], 'means': [...]} (getinstant_read.py; 'means' is for the oracle only).
Added: 'reads' (the iarg readings), 'obs' ({name: ['ok', value] | ['raise', enum]}), 'exc' ({name: class}),
'outside' (reason) when a reading is not possible.
"""
from __future__ import annotations

from fractions import Fraction

from whenever import Instant, RepeatedTime, SkippedTime, patch_current_time

from eascheduler.builder.helper import get_instant
from eascheduler.builder.jobs import JobBuilder
from eascheduler.builder.triggers import TriggerBuilder
from eascheduler.errors.errors import ScheduledRunInThePastError
from eascheduler.executor.base import SyncExecutor
from eascheduler.job_control import CountdownJobControl, OneTimeJobControl
from eascheduler.producers import IntervalProducer, JitterProducerOperation, OffsetProducerOperation
from eascheduler.schedulers.async_scheduler import AsyncScheduler
from harness.getinstant_read import Outside, build, read_duration, read_instant


def secs_to_ns(x) -> int:
    """a stored float (or int) number of seconds, exactly rounded to nanoseconds"""
    return round(Fraction(x) * 10**9)


def classify(e: BaseException) -> tuple[str, str]:
    name = type(e).__name__
    if isinstance(e, ScheduledRunInThePastError):
        return 'EPast', name
    if isinstance(e, (SkippedTime, RepeatedTime)):
        return 'EOther', name
    if isinstance(e, ValueError):
        return 'EValueError', name
    if isinstance(e, TypeError):
        return 'ETypeError', name
    return 'EOther', name


def attempt(f):
    try:
        return ['ok', f()], None
    except AssertionError:
        raise                      # a broken expectation of the harness itself: fail loudly
    except Exception as e:  # noqa: BLE001
        enum, name = classify(e)
        return ['raise', enum], name


def _noop() -> None:
    return None


def run_case(case: dict) -> dict:
    """must be called from inside a running loop"""
    out = dict(case)
    obs, exc, reads = {}, {}, {}
    out.update(obs=obs, exc=exc, reads=reads)
    now = case['now']
    call = case['call']
    try:
        with patch_current_time(Instant.from_timestamp_nanos(now), keep_ticking=False):
            assert Instant.now().timestamp_nanos() == now
            sched = AsyncScheduler(enabled=False)          # picks up the running loop
            builder = JobBuilder(sched, lambda f, a, k: SyncExecutor(f, a, k))

            def record(name, f):
                obs[name], e = attempt(f)
                if e is not None:
                    exc[name] = e

            if call == 'instant':
                reads['arg'] = read_instant(build(case['arg']['spec']))
                record('get', lambda: get_instant(build(case['arg']['spec'])).timestamp_nanos())

                def once():
                    c = builder.once(build(case['arg']['spec']), _noop)
                    assert isinstance(c, OneTimeJobControl)
                    nr = c._job.next_run
                    assert c.status.is_running and len(sched.jobs) == 1 and sched.jobs[0] is c._job
                    out['once_datetime'] = c.next_run_datetime.isoformat()
                    return nr.timestamp_nanos()
                record('once', once)
                if obs['once'][0] != 'ok':
                    out['once_jobs_left'] = len(sched.jobs)
            elif call == 'countdown':
                reads['arg'] = read_duration(build(case['arg']['spec']))

                def countdown():
                    c = builder.countdown(build(case['arg']['spec']), _noop)
                    assert isinstance(c, CountdownJobControl)
                    assert c._job.next_run is None and c.status.is_paused
                    return secs_to_ns(c._job._seconds)
                record('countdown', countdown)
            elif call == 'interval':
                reads['start'] = read_instant(build(case['start']['spec']))
                reads['iv'] = read_duration(build(case['iv']['spec']))

                def interval():
                    t = TriggerBuilder.interval(build(case['start']['spec']), build(case['iv']['spec']))
                    p = t._producer
                    assert type(p) is IntervalProducer
                    return [None if p._next is None else p._next.timestamp_nanos(), secs_to_ns(p._interval)]
                record('interval', interval)
            elif call == 'offset':
                reads['arg'] = read_duration(build(case['arg']['spec']))
                base = TriggerBuilder.interval(None, 3600)

                def offset():
                    p = base.offset(build(case['arg']['spec']))._producer
                    assert type(p) is OffsetProducerOperation
                    return secs_to_ns(p.offset)
                record('offset', offset)
            elif call == 'jitter':
                reads['lo'] = read_duration(build(case['lo']['spec']))
                # high=None is "not given" (the signature's default), it is not read as an argument
                hi_given = case['hi'] is not None and build(case['hi']['spec']) is not None
                reads['hi'] = read_duration(build(case['hi']['spec'])) if hi_given else None
                base = TriggerBuilder.interval(None, 3600)

                def jitter():
                    hi = None if case['hi'] is None else build(case['hi']['spec'])
                    p = base.jitter(build(case['lo']['spec']), hi)._producer
                    assert type(p) is JitterProducerOperation
                    return [secs_to_ns(p.low), secs_to_ns(p.high)]
                record('jitter', jitter)
            else:
                raise ValueError(call)
    except Outside as e:
        out['outside'] = str(e)
    return out
