"""sched_gen.py — structured, boundary-biased generators of scheduler histories (see sched_impl for the
format).  Every random choice comes from the `random.Random` handed in."""
from __future__ import annotations

import random

from lib.vloop import EPOCH0_NS, QUANTUM_NS as Q

U = 256 * Q            # 0.5 s
DELAYS = [Q, 2 * Q, U, 2 * U, 3 * U, 4 * U, 7 * U, 20 * U, 120 * U, 7200 * U]


# (zone, UTC second at which its clocks go back by one hour)
FOLDS = [('Europe/Berlin', 1761440400), ('America/New_York', 1762063200), ('Australia/Lord_Howe', 1743865200)]


class Gen:
    def __init__(self, rng: random.Random, profile: str) -> None:
        self.r = rng
        self.profile = profile
        self.t0 = EPOCH0_NS + rng.randrange(0, 10**6) * Q * 512
        self.tz = 'UTC'
        if rng.random() < 0.15:
            # the system time zone is about to set its clocks back: instants one hour apart read the same on the
            # wall clock (run times must be compared as instants)
            self.tz, fold = rng.choice(FOLDS)
            self.t0 = fold * 10**9 - rng.randrange(0, 7200) * U
        self.now = self.t0
        self.ops: list = []
        self.ncreated = 0
        self.targets: list[int] = []     # instants at which something may become due
        self.keys_used: list[int] = []

    # -- helpers ----------------------------------------------------------------------------------
    def key(self, store: bool) -> int:
        r = self.r
        if 0 not in self.keys_used and r.random() < 0.15:
            self.keys_used.append(0)                   # a legal but falsy id
            return 0
        if store and self.keys_used and r.random() < 0.12:
            return r.choice(self.keys_used)           # duplicate id
        k = 100 + len(self.keys_used)
        while k in self.keys_used:
            k += 1
        self.keys_used.append(k)
        return k

    def delay(self) -> int:
        r = self.r
        d = r.choice(DELAYS)
        if r.random() < 0.3:
            d += r.randrange(0, 5) * Q
        return d

    def sel(self) -> int:
        return self.r.randrange(0, max(1, self.ncreated))

    def op_create(self, store: bool, kinds=('once', 'countdown', 'at')) -> None:
        r = self.r
        kind = r.choice(kinds)
        if kind == 'once':
            p = r.random()
            if p < 0.08:
                t = self.now                                   # zero delay
            elif p < 0.14:
                t = self.now - r.choice([Q, 40 * Q, 51 * Q])     # slightly in the past, inside the tolerance
            elif p < 0.20:
                t = self.now - r.choice([52 * Q, U, 10 * U])     # too far in the past -> error
            elif p < 0.35 and self.targets:
                t = r.choice(self.targets) + r.choice([0, 0, 0, 500_000, -300_000])   # equal / almost equal run times
                if t < self.now:
                    t = self.now + self.delay()
            else:
                t = self.now + self.delay()
            self.targets.append(t)
            self.ops.append(['once', t, self.key(store)])
        elif kind == 'countdown':
            secs = self.delay() if r.random() > 0.05 else r.choice([0, -U])
            self.ops.append(['countdown', secs, self.key(store)])
        else:
            iv = r.choice([U, 2 * U, 3 * U, 5 * U, 20 * U, 7 * Q])
            start = self.t0 - r.randrange(0, 10) * U + r.choice([0, 0, Q, 3 * Q])
            nfail = 0
            fail: list[int] = []
            if self.profile == 'fail' and r.random() < 0.5:
                fail = sorted(set(r.choice([0, 1, 2, 3, 4]) for _ in range(r.choice([1, 1, 2]))))
            if self.profile == 'failcreate' and r.random() < 0.5:
                fail = [0]
            self.ops.append(['at', self.key(store), start, iv, fail])
            self.targets.append(start + ((self.now - start) // iv + 1) * iv)
        self.ncreated += 1

    def op_advance(self) -> None:
        r = self.r
        fut = sorted(t for t in set(self.targets) if t > self.now)
        p = r.random()
        if fut and p < 0.55:
            t = fut[0] if r.random() < 0.7 else r.choice(fut)
            d = t - self.now + r.choice([0, 0, 0, -Q, Q, 0, 3 * Q, -500_000, -100_000, 400_000])
        elif p < 0.65:
            d = 0
        elif p < 0.75:
            d = Q
        elif p < 0.9:
            d = self.delay()
        else:
            d = r.choice([600 * U, 7200 * U, 2 * 86400 * U])
        d = max(0, d)
        self.now += d
        self.ops.append(['adv', d])

    def op_control(self) -> None:
        r = self.r
        j = self.sel()
        p = r.random()
        if p < 0.2:
            self.ops.append(['cancel', j])
        elif p < 0.35:
            self.ops.append(['pause', j])
        elif p < 0.5:
            self.ops.append(['resume', j])
        elif p < 0.8:
            self.ops.append(['reset', j])
            self.targets += [self.now + d for d in DELAYS[:8]]
        else:
            self.ops.append(['setcd', j, self.delay() if r.random() > 0.1 else 0])

    def op_cb(self) -> None:
        r = self.r
        self.ops.append([r.choice(['reg', 'reg', 'unreg']), self.sel(), r.choice(['u', 'f']), r.randrange(0, 4)])


def gen_history(rng: random.Random, profile: str = 'mixed') -> dict:
    g = Gen(rng, profile)
    r = rng
    store = r.random() < (0.6 if profile in ('mixed', 'store') else 0.3)
    enabled = r.random() < 0.85
    n = r.choice([5, 8, 12, 20, 30, 45, 60]) if profile != 'order' else r.choice([12, 20, 30])
    fexec: list = []
    fcb: list = []
    if profile in ('fail', 'failcreate'):
        fexec = [[r.randrange(0, 4), r.randrange(0, 3)] for _ in range(r.choice([0, 1, 2, 3]))]
        fcb = [[r.randrange(0, 4), r.randrange(0, 4)] for _ in range(r.choice([0, 1, 2, 3]))]

    if profile == 'order':
        # many jobs, equal and distinct times, shuffled insert / re-time / remove, then one late wake-up
        k = r.choice([3, 4, 5, 6, 8])
        if r.random() < 0.4:
            g.ops.append(['enable', False]);
        base = g.now + r.choice([U, 4 * U])
        for _ in range(k):
            kind = r.choice(['once', 'once', 'countdown', 'at'])
            if kind == 'once':
                t = base + r.choice([0, 0, Q, U, 2 * U, 3 * U])
                g.ops.append(['once', t, g.key(store)]); g.targets.append(t)
                g.ncreated += 1
            else:
                g.op_create(store, (kind,))
            if r.random() < 0.5:
                g.op_control()
        for _ in range(r.choice([0, 2, 4])):
            g.op_control()
        d = r.choice([base - g.now + 5 * U, 30 * U, 7200 * U])
        g.now += d
        g.ops.append(['adv', d])
        g.ops.append(r.choice([['wake'], ['enable', True], ['enable', True], ['wake']]))
        g.ops.append(['enable', True])
        g.ops.append(['wake'])
        n = len(g.ops) + r.choice([0, 4, 8])

    if profile == 'countdown':
        for _ in range(r.choice([1, 2, 3])):
            g.op_create(store, ('countdown',))
        if r.random() < 0.5:
            g.op_create(store, ('once', 'at'))

    while len(g.ops) < n:
        p = r.random()
        if g.ncreated == 0 or p < (0.18 if profile != 'countdown' else 0.05):
            g.op_create(store)
        elif p < 0.45:
            g.op_advance()
            if r.random() < 0.75:
                g.ops.append(['wake'])
                if r.random() < 0.2:
                    # a control operation right after the wake-up, at the very instant of the executions
                    g.ops.append([r.choice(['resume', 'resume', 'pause', 'reset']), g.sel()])
        elif p < 0.55:
            g.ops.append(['wake'])
        elif p < 0.58:
            g.ops.append(['early'])
        elif p < 0.66:
            g.ops.append(['enable', r.random() < 0.55])
        elif p < 0.74 and profile in ('mixed', 'fail', 'store', 'failcreate'):
            g.op_cb()
        else:
            g.op_control()
    if r.random() < 0.7:
        g.ops.append(['enable', True])
        g.op_advance()
        g.ops.append(['wake'])
    return {'t0': g.t0, 'enabled': enabled, 'store': store, 'fexec': fexec, 'fcb': fcb, 'ops': g.ops,
            'profile': profile, 'tz': g.tz, 'shared_exc': r.random() < 0.3, 'group_exc': r.random() < 0.15}
