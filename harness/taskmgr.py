"""taskmgr.py — checks of the task-manager group (C11 sequential, C12 parallel): generate event traces, run the
real managers on the virtual loop one handle at a time, evaluate the Coq model (TaskMgr.v) on the same traces
inside Coq, apply the property oracles to what the implementation did."""
from __future__ import annotations

import collections
import json
import random
import re
import subprocess
from pathlib import Path

from harness import taskmgr_oracle as O
from harness.taskmgr_coq import cases_file, coq_case, debug_file
from harness.taskmgr_gen import PAR_MANAGERS, PROFILES, SEQ_MANAGERS, gen_case, scripted
from lib import coqrun

VERIF = Path(__file__).resolve().parent.parent
CORPUS = VERIF / 'corpus'

COQ_TARGETS = ['theories/TaskMgrCases.vo']
COUNTS = {'quick': 1100, 'thorough': 30000}
SHARD = 40

ASSUMPTIONS = {p: [
    'asyncio is modelled at the granularity of loop handles (task step, done-callbacks) with a FIFO ready queue; '
    'Task.cancel() as in CPython 3.12 (_must_cancel / cancelling the awaited future); the model is compared with '
    'the real loop (ready queue, Task._must_cancel, coroutine states) after every event',
    'coroutine bodies only submit further coroutines, await one future at a time and finish; they do not cancel '
    'tasks or resolve futures themselves (the harness and the manager policies do)',
    'max_queue >= 1 / parallel >= 1 (smaller values are refused by the constructors)',
] for p in ('C11', 'C12')}

TRUSTED_EXTRA = {p: [
    'harness/taskmgr_impl.py: the loop is stepped by popping loop._ready (Run) or by loop._run_once() (Tick); tasks are '
    'registered through loop.set_task_factory; phases are read from inspect.getcoroutinestate, Task.done(), '
    'Task._fut_waiter, Task._must_cancel and the handles in loop._ready',
] for p in ('C11', 'C12')}

RULES = {
    'C11': 'trace non-trivial iff >= 2 bodies were entered and (a coroutine was dropped, or a submission came from '
           'inside a body, or between a completion and its done-callback, or a task was cancelled); distinct by '
           '(manager, events, observations) hash',
    'C12': 'trace non-trivial iff >= 2 tasks were started and (the bound was hit: a coroutine was rejected or a task '
           'cancelled by the manager; for the unbounded manager: some task finished while another lived); distinct by '
           '(manager, events, observations) hash',
}


def _impl_run(cases: list[dict], scratch: Path, tag: str) -> list:
    """run the implementation in subprocesses (fresh interpreters, PYTHONPATH = /repo/src)"""
    env = {'PYTHONPATH': f'{coqrun.REPO}/src:{VERIF}', 'PYTHONHASHSEED': '0', 'PATH': '/usr/bin:/bin', 'TZ': 'UTC'}
    nproc = max(1, min(coqrun.JOBS, 8, (len(cases) + 199) // 200))
    chunks = [cases[i::nproc] for i in range(nproc)]
    procs = []
    for k, ch in enumerate(chunks):
        inp = scratch / f'tm_in_{tag}_{k}.json'
        outp = scratch / f'tm_out_{tag}_{k}.json'
        inp.write_text(json.dumps(ch))
        procs.append((subprocess.Popen(['/venv/bin/python', '-u', '-m', 'harness.taskmgr_runner', str(inp), str(outp)],
                                       cwd=VERIF, env=env, stdout=subprocess.PIPE, stderr=subprocess.PIPE, text=True),
                      outp))
    outs = []
    for pr, outp in procs:
        try:
            _, err = pr.communicate(timeout=3000)
        except subprocess.TimeoutExpired:
            pr.kill()
            raise RuntimeError('implementation runner timed out')
        if pr.returncode != 0:
            raise RuntimeError('implementation runner failed: ' + err[-3000:])
        outs.append(json.loads(outp.read_text()))
    res: list = [None] * len(cases)
    for k, o in enumerate(outs):
        res[k::nproc] = o
    return res


def _nontrivial(prop: str, r) -> bool:
    last = r['obs'][-1] if r['obs'] else None
    if last is None:
        return False
    if prop == 'C11':
        special = (bool(last['closed']) or any(s['inside'] is not None for s in r['sub'])
                   or any(s['run0'] is not None and (2 * s['run0'] + 1) in _ready_before(r, s) for s in r['sub'])
                   or any(e[0] == 'cancel' for e in r['case']['evs']))
        return len(last['entlog']) >= 2 and special
    if r['case']['mgr'][0] == 'par':
        return len(last['started']) >= 2 and any(
            any(12 <= x % 16 <= 14 for x in o['cids']) and any(3 <= x % 16 <= 8 for x in o['cids']) for o in r['obs'])
    return len(last['started']) >= 2 and bool(last['closed'] or last['mcanc'])


def _ready_before(r, s) -> list:
    i = s['ev']
    return r['obs'][i - 1]['ready'] if i > 0 else []


def _corpus(prop: str) -> list[dict]:
    out = []
    d = CORPUS / prop
    if d.is_dir():
        for p in sorted(d.glob('*.json')):
            out.append(json.loads(p.read_text())['case'])
    return out


def _cases(prop: str, tier: str, rng: random.Random) -> list[dict]:
    return _corpus(prop) + scripted(prop) + [gen_case(rng, prop, i) for i in range(COUNTS[tier])]


def _keepalive_probe() -> list:
    """C12: tasks must be strongly referenced while tracked (independent of the trace machinery)"""
    import subprocess as _sp
    env = {'PYTHONPATH': f'{coqrun.REPO}/src:{VERIF}', 'PYTHONHASHSEED': '0', 'PATH': '/usr/bin:/bin'}
    r = _sp.run(['/venv/bin/python', '-m', 'harness.taskmgr_keepalive'], cwd=VERIF, env=env, capture_output=True,
                text=True, timeout=120)
    if r.returncode != 0:
        return [{'what': 'keep-alive probe crashed: ' + r.stderr[-500:], 'case': {'kind': 'keepalive'}}]
    return [{'what': w, 'case': {'kind': 'keepalive'}} for w in json.loads(r.stdout)]


def run(prop: str, tier: str, seed: int, scratch: Path, replay=None, model_ok=True) -> dict:
    rng = random.Random(f'{prop}-{seed}')
    if replay:
        payload = json.loads(Path(replay).read_text())
        cases = [payload['case']]
    else:
        cases = _cases(prop, tier, rng)
    results = _impl_run(cases, scratch, 'main')

    oracle = O.ORACLES[prop]
    spec_violations = []
    dist = collections.Counter()
    mgrs = collections.Counter()
    profiles = collections.Counter()
    lens = collections.Counter()
    phases = collections.Counter()
    extra_counts = collections.Counter()
    seen = set()
    nontrivial = 0
    for r in results:
        c = r['case']
        mgrs[' '.join(str(x) for x in c['mgr'])] += 1
        profiles[c.get('profile', 'replay')] += 1
        lens[len(c['evs']) // 10 * 10] += 1
        for e, o in zip(c['evs'], r['obs']):
            dist[e[0]] += 1
            if o['flag']:
                extra_counts['invalid requests'] += 1
        for s in r['sub']:
            if s['inside'] is not None:
                extra_counts['submissions from inside a body'] += 1
            if s['closed']:
                extra_counts['coroutines dropped at the bound / superseded'] += 1
            if s['victims']:
                extra_counts['tasks cancelled by the manager'] += 1
            if s['ev'] > 0 and any(h % 2 == 1 for h in r['obs'][s['ev'] - 1]['ready']):
                extra_counts['submissions while a done-callback was pending'] += 1
        if r['obs']:
            for x in r['obs'][-1]['cids']:
                phases[x % 16] += 1
            if any(x % 16 == 11 and not x & 32 for o in r['obs'] for x in o['cids']):
                extra_counts['traces with a task cancelled before its first step'] += 1
        h = hash(json.dumps([c['mgr'], c['evs'], [{k: v for k, v in o.items()} for o in r['obs']]], sort_keys=True))
        if _nontrivial(prop, r) and h not in seen:
            nontrivial += 1
        seen.add(h)
        bad = oracle(r)
        for k, msg in bad[:1]:
            spec_violations.append({'what': msg, 'op_index': k, 'case': c,
                                    'observed': r['obs'][k] if k < len(r['obs']) else None,
                                    'all': [m for _, m in bad[:5]]})

    corr_failures = []
    wellformed_bad = []
    if model_ok:
        files = []
        for s in range(0, len(results), SHARD):
            p = scratch / f'tmcases_{s // SHARD}.v'
            p.write_text(cases_file([(r['case'], r['obs']) for r in results[s:s + SHARD]]))
            files.append(p)
        for p, rc, out in coqrun.eval_cases(files):
            base = int(p.stem.split('_')[1]) * SHARD
            if rc != 0:
                corr_failures.append({'file': p.name, 'error': out[-1500:]})
                continue
            flat = ' '.join(out.split())
            m1 = re.search(r'= (\[.*?\]) : list \(nat \* nat\)', flat)
            m2 = re.search(r'= (\[[^\]]*\]) : list nat', flat)
            if not m1 or not m2:
                corr_failures.append({'file': p.name, 'error': 'cannot parse: ' + flat[-500:]})
                continue
            for ci, k in coqrun.parse_pairs(m1.group(1)):
                r = results[base + ci]
                dout = ''
                if len(corr_failures) < 3:          # model-vs-implementation details for the first few only
                    dbg = scratch / f'tmdebug_{base + ci}.v'
                    dbg.write_text(debug_file(coq_case(r['case'], r['obs']), k))
                    _, dout = coqrun.coqc_file(dbg)
                corr_failures.append({'case': r['case'], 'op_index': k, 'op': r['case']['evs'][k] if k < len(r['case']['evs']) else None,
                                      'implementation': r['obs'][k] if k < len(r['obs']) else None,
                                      'model_vs_impl_coq': ' '.join(dout.split())[-3000:]})
            wellformed_bad += [base + x for x in coqrun.parse_nats(m2.group(1))]
    else:
        corr_failures.append({'error': 'model does not build'})

    if not replay:
        # keep-alive and second-event-loop probes (runtime behaviour outside the loop-handle model)
        probe = _keepalive_probe()
        spec_violations += [v for v in probe if (prop == 'C12') != ('Sequential' in v['what'])]

    samples = []
    for r in results:
        if _nontrivial(prop, r) and r['case'].get('profile') != 'scripted':
            last = r['obs'][-1]
            samples.append({'mgr': r['case']['mgr'], 'events': r['case']['evs'][:30], 'started': last['started'],
                            'entered': last['entlog'], 'dropped': last['closed'], 'cancelled_by_manager': last['mcanc']})
            if len(samples) >= 2:
                break
    return {
        'evaluations': len(results), 'distinct_nontrivial': nontrivial, 'rule': RULES[prop], 'samples': samples,
        'corr_failures': corr_failures, 'spec_violations': spec_violations,
        'distribution': {'events': dict(dist), 'managers': dict(mgrs), 'profiles': dict(profiles),
                         'trace_length': dict(lens), 'final_phase_codes': dict(phases), 'situations': dict(extra_counts)},
        'extra': {'trace_checks_in_coq_failed': wellformed_bad,
                  'compared_per_event': 'invalid-request flag, manager.task, queue (coroutines and keys), manager.tasks, '
                                        'the loop ready queue (task steps / done-callbacks in order), per coroutine: phase '
                                        '(from getcoroutinestate, task, awaited future), Task._must_cancel, body entered; '
                                        'creation order of tasks, entry order of bodies, dropped and manager-cancelled coroutines'},
    }


def search(prop: str, seed: int, scratch: Path) -> list:
    """violation search on the implementation alone: more traces, property oracle only"""
    rng = random.Random(f'search-{prop}-{seed}')
    cases = scripted(prop) + [gen_case(rng, prop, i) for i in range(6000)]
    results = _impl_run(cases, scratch, 'search')
    out = []
    for r in results:
        bad = O.ORACLES[prop](r)
        for k, msg in bad[:1]:
            out.append({'what': msg, 'op_index': k, 'case': r['case'],
                        'observed': r['obs'][k] if k < len(r['obs']) else None})
    out.sort(key=lambda v: len(v['case']['evs']))
    return out


def match_known(prop: str, v: dict, known: list) -> str | None:
    return None


def replay_known(prop: str, f: dict, scratch: Path):
    if 'case' not in f:
        return None
    r = _impl_run([f['case']], scratch, 'known_' + f['id'])[0]
    return bool(O.ORACLES[prop](r))
