"""compose_runner.py — subprocess entry (TZ=<zone>): run a recurring job (scheduler.at) with a REAL trigger on the
real scheduler under virtual time for many occurrences and record every execution."""
import asyncio
import json
import resource
import sys
import time


class Runaway(BaseException):
    pass


def run_case(case):
    from whenever import Instant, TimeDelta
    from eascheduler.builder.jobs import JobBuilder
    from eascheduler.builder.triggers import TriggerObject
    from eascheduler.executor.base import SyncExecutor
    from eascheduler.schedulers.async_scheduler import AsyncScheduler
    from harness import prod_impl
    from lib.vloop import drain, virtual_time

    out = {'steps': [], 'first': None, 'error': None, 'others': 0}
    draws = prod_impl.Draws(case.get('fracs', [0.5]))
    old = prod_impl.prod_operation.uniform
    prod_impl.prod_operation.uniform = draws
    try:
        with virtual_time(case['t0']) as (clock, loop):
            asyncio.set_event_loop(loop)
            log = []
            others = []

            async def main():
                sched = AsyncScheduler()
                builder = JobBuilder(sched, lambda f, a, k: SyncExecutor(f, a, k))
                cell = {}

                def fn():
                    job = cell['job']
                    if len(log) > 400:
                        raise Runaway()          # far more executions than occurrences: a runaway re-execution
                    log.append([clock.ns, job.next_run.timestamp_nanos() if job.next_run is not None else None])

                if case.get('other_first'):
                    # another job is already queued (and the timer armed for it) when the recurring job is created
                    far = builder.once(Instant.from_timestamp_nanos(case['t0'] + case['other_first']), lambda: others.append(clock.ns))
                ctrl = builder.at(TriggerObject(prod_impl.build(case['expr'])), fn)
                cell['job'] = ctrl._job
                out['first'] = ctrl._job.next_run.timestamp_nanos()
                other_ctrls = []
                for k, late in enumerate(case['late']):
                    nr = ctrl._job.next_run.timestamp_nanos()
                    step = {'announced': nr, 'pre': None}
                    # disturbances on other jobs before the occurrence
                    if case.get('disturb') and k % 3 == 0:
                        gap = nr - clock.ns
                        c1 = builder.once(Instant.from_timestamp_nanos(clock.ns + gap // 2 // 10**6 * 10**6), lambda: others.append(clock.ns))
                        c2 = builder.countdown(TimeDelta(nanoseconds=max(10**6, gap // 3 // 10**6 * 10**6)), lambda: others.append(clock.ns))
                        c2.reset()
                        other_ctrls += [c1, c2]
                        if k % 6 == 0 and c1.status.value != 'finished':
                            c1.cancel()
                    if case.get('disturb') and k % 3 == 1:
                        # a one-shot job due a fraction of a second AFTER the occurrence (same second for most
                        # triggers) is queued before it: the recurring job must still be the head and run on time
                        c3 = builder.once(Instant.from_timestamp_nanos(nr + 300_000_000), lambda: others.append(clock.ns))
                        other_ctrls.append(c3)
                    if case.get('disturb') and k % 3 == 2 and '"jitter"' not in json.dumps(case['expr']):
                        # ... and one due a fraction of a second after the NEXT occurrence, queued before the recurring
                        # job is re-inserted for it
                        try:
                            pred = ctrl._job.producer.copy().get_next(Instant.from_timestamp_nanos(nr)).timestamp_nanos()
                            c4 = builder.once(Instant.from_timestamp_nanos(pred + 300_000_000), lambda: others.append(clock.ns))
                            other_ctrls.append(c4)
                        except Exception:  # noqa: BLE001
                            pass
                    if case.get('disturb') and k % 5 == 3 and '"jitter"' not in json.dumps(case['expr']):
                        # resume() of a job that is NOT paused: the pending occurrence stays the next run
                        # ("every occurrence after the job's creation or last resume")
                        try:
                            ctrl.resume()
                        except Exception as e:  # noqa: BLE001
                            out['error'] = f'resume() of a running job raised {type(e).__name__}: {e}'
                            break
                        nr2 = ctrl._job.next_run.timestamp_nanos() if ctrl._job.next_run is not None else None
                        if nr2 != nr:
                            step['announced'] = nr2          # the oracle judges what is announced now
                            nr = nr2 if nr2 is not None else nr
                    if case.get('pre') and nr - clock.ns > 2_000_000:
                        # a wake-up shortly before the occurrence must not start the job
                        clock.set(nr - 1_000_000)
                        n0 = len(log)
                        await drain(loop)
                        step['pre'] = len(log) - n0
                    if case.get('disturb') and k % 4 == 1 and other_ctrls:
                        try:
                            other_ctrls[-1].stop()
                        except Exception:  # noqa: BLE001
                            pass
                    clock.set(max(clock.ns, nr + late))
                    n0 = len(log)
                    await drain(loop)
                    step['wake_at'] = clock.ns
                    step['execs'] = log[n0:]
                    nx = ctrl._job.next_run
                    step['next_after'] = nx.timestamp_nanos() if nx is not None else None
                    step['status'] = ctrl._job.status.value
                    out['steps'].append(step)
                    if step['next_after'] is None:
                        break
                if sched.timer is not None:
                    sched.timer.cancel()

            try:
                loop.run_until_complete(main())
            finally:
                asyncio.set_event_loop(None)
            out['others'] = len(others)
    except Runaway:
        out['error'] = 'Runaway: the job was executed hundreds of times within a few occurrences'
    except Exception as e:  # noqa: BLE001
        out['error'] = f'{type(e).__name__}: {e}'
    finally:
        prod_impl.prod_operation.uniform = old
    out['draws'] = draws.log
    res = dict(case)
    res['out'] = out
    return res


def main() -> int:
    resource.setrlimit(resource.RLIMIT_AS, (6 << 30, 6 << 30))
    time.tzset()
    cases = json.load(open(sys.argv[1]))
    json.dump([run_case(c) for c in cases], open(sys.argv[2], 'w'))
    return 0


if __name__ == '__main__':
    sys.exit(main())
