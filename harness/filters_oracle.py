"""filters_oracle.py — Python oracles for C17, independent of the Coq model AND of eascheduler:

* `ref_local`  : local calendar fields of an instant in a named zone, from `zoneinfo` + `datetime`
* `ref_values` : the set a spelling denotes according to the property text (names English/German, full or
                 abbreviated, numbers, comma lists, ranges incl. wrap-around), or `Reject`
* `ref_eval`   : evaluation of a filter expression on those fields (any = at least one, all = every,
                 not = inverse, time = lower <= local time < upper, sets = membership)

This module never imports eascheduler or whenever."""
from __future__ import annotations

import re
from datetime import date, datetime, timedelta
from functools import lru_cache
from zoneinfo import ZoneInfo

NS = 10 ** 9
DAY_NS = 86400 * NS

# The names of the property text: English and German, full and abbreviated (written out by hand here,
# NOT read from eascheduler.const).  'mrz' is the second customary German abbreviation of März.
REF_DAYS = {
    1: ['monday', 'mon', 'montag', 'mo'], 2: ['tuesday', 'tue', 'dienstag', 'di'],
    3: ['wednesday', 'wed', 'mittwoch', 'mi'], 4: ['thursday', 'thu', 'donnerstag', 'do'],
    5: ['friday', 'fri', 'freitag', 'fr'], 6: ['saturday', 'sat', 'samstag', 'sa'],
    7: ['sunday', 'sun', 'sonntag', 'so'],
}
REF_MONTHS = {
    1: ['january', 'jan', 'januar'], 2: ['february', 'feb', 'februar'], 3: ['march', 'mar', 'märz', 'mär', 'mrz'],
    4: ['april', 'apr'], 5: ['may', 'mai'], 6: ['june', 'jun', 'juni'], 7: ['july', 'jul', 'juli'],
    8: ['august', 'aug'], 9: ['september', 'sep'], 10: ['october', 'oct', 'oktober', 'okt'],
    11: ['november', 'nov'], 12: ['december', 'dec', 'dezember', 'dez'],
}
REF_NAMES = {
    'weekdays': {n: k for k, names in REF_DAYS.items() for n in names},
    'days': {},
    'months': {n: k for k, names in REF_MONTHS.items() for n in names},
}
MAXV = {'weekdays': 7, 'days': 31, 'months': 12}
DOMS = ('weekdays', 'days', 'months')


class Reject(Exception):
    """the spelling denotes no set: the property demands that it is rejected"""


_NUM = re.compile(r'[0-9]+\Z')


def ref_atom(dom: str, text: str) -> int:
    t = text.strip()
    if _NUM.match(t):
        if len(t) > 4300:          # CPython refuses to convert longer digit strings (documented limit)
            raise Reject('too many digits')
        n = int(t)
    else:
        n = REF_NAMES[dom].get(t.lower())
        if n is None:
            raise Reject(f'unknown name {t!r}')
    if not 1 <= n <= MAXV[dom]:
        raise Reject(f'{n} out of range')
    return n


def ref_range(a: int, b: int, mx: int) -> set[int]:
    if a <= b:
        return set(range(a, b + 1))
    return set(range(a, mx + 1)) | set(range(1, b + 1))      # wrap-around: Fr-Mo, Oct-Feb


def ref_str(dom: str, s: str) -> set[int]:
    out: set[int] = set()
    for item in s.split(','):
        head, dash, tail = item.partition('-')
        if dash:
            out |= ref_range(ref_atom(dom, head), ref_atom(dom, tail), MAXV[dom])
        else:
            out.add(ref_atom(dom, head))
    return out


def ref_value(dom: str, v) -> set[int]:
    """v is a decoded Python value (int / bool / str / list / tuple / anything else)"""
    if isinstance(v, bool):
        v = int(v)           # Python: True == 1; the property text does not mention booleans
    if isinstance(v, int):
        if not 1 <= v <= MAXV[dom]:
            raise Reject(f'{v} out of range')
        return {v}
    if isinstance(v, str):
        return ref_str(dom, v)
    if hasattr(v, '__next__'):
        v = list(v)          # a one-shot iterator is an Iterable like any other: it denotes what its elements denote
    if isinstance(v, (list, tuple)):
        if not v:
            raise Reject('no values')
        out: set[int] = set()
        for x in v:
            out |= ref_value(dom, x)
        return out
    raise Reject(f'not a name, number or list: {type(v).__name__}')


def ref_values(dom: str, args: list) -> list[int]:
    """what get_<dom>(*args) has to return"""
    return sorted(ref_value(dom, list(args)))


# --------------------------------------------------------------------------------------------------
@lru_cache(maxsize=64)
def _zone(name: str) -> ZoneInfo:
    return ZoneInfo(name)


def ref_local(zone: str, inst_ns: int) -> dict:
    secs, frac = divmod(inst_ns, NS)
    dt = datetime.fromtimestamp(secs, _zone(zone))
    off = dt.utcoffset()
    return {'y': dt.year, 'm': dt.month, 'd': dt.day, 'wd': dt.isoweekday(),
            'tod': (dt.hour * 3600 + dt.minute * 60 + dt.second) * NS + frac,
            'off': off.days * 86400 + off.seconds, 'daynr': (date(dt.year, dt.month, dt.day) - date(1970, 1, 1)).days}


def utc_weekday(inst_ns: int) -> int:
    return (datetime(1970, 1, 1) + timedelta(seconds=inst_ns // NS)).isoweekday()


def is_working_day(daynr: int, holidays: set[int]) -> bool:
    d = date(1970, 1, 1) + timedelta(days=daynr)
    return d.isoweekday() not in (6, 7) and daynr not in holidays


def ref_build(expr) -> None:
    """raises Reject when the expression cannot be built (a malformed leaf)"""
    k = expr[0]
    if k in ('any', 'all'):
        for e in expr[1]:
            ref_build(e)
    elif k == 'not':
        ref_build(expr[1])
    elif k == 'time':
        if expr[1] is None and expr[2] is None:
            raise Reject('no bound')
    elif k == 'set':
        from harness.filters_gen import decode
        ref_value(expr[1], [decode(a) for a in expr[2]])
    elif k == 'hol':
        pass
    else:
        raise ValueError(k)


def ref_eval(expr, loc: dict) -> bool:
    k = expr[0]
    if k == 'any':
        return any(ref_eval(e, loc) for e in expr[1])       # at least one member accepts
    if k == 'all':
        return all(ref_eval(e, loc) for e in expr[1])       # every member accepts
    if k == 'not':
        return not ref_eval(expr[1], loc)
    if k == 'time':
        lo, hi = expr[1], expr[2]
        return (lo is None or lo <= loc['tod']) and (hi is None or loc['tod'] < hi)
    if k == 'set':
        from harness.filters_gen import decode
        s = ref_value(expr[1], [decode(a) for a in expr[2]])
        return {'weekdays': loc['wd'], 'days': loc['d'], 'months': loc['m']}[expr[1]] in s
    if k == 'hol':
        hol = set(expr[2])
        if expr[1] == 'holidays':
            return loc['daynr'] in hol
        w = is_working_day(loc['daynr'], hol)
        return w if expr[1] == 'work_days' else not w
    raise ValueError(k)
