"""prod_oracle.py — reference semantics of triggers, independent of the Coq model and of whenever:
zoneinfo + PEP 495 fold semantics + plain integer arithmetic.  Used to decide the properties C04 C05 C06
C13 C14 on the implementation's own answers."""
from __future__ import annotations

import datetime as dtm
from zoneinfo import ZoneInfo

NS = 10**9
DAY = 86400 * NS
UTC = dtm.timezone.utc
EPOCH = dtm.datetime(1970, 1, 1, tzinfo=UTC)


class Ref:
    def __init__(self, zone: str) -> None:
        self.zi = ZoneInfo(zone)

    # -- local time -------------------------------------------------------------------------------
    def offset_ns(self, i: int) -> int:
        d = EPOCH + dtm.timedelta(seconds=i // NS)
        return int(d.astimezone(self.zi).utcoffset().total_seconds()) * NS

    def local(self, i: int) -> int:
        return i + self.offset_ns(i)

    def local_fields(self, i: int):
        l = self.local(i)
        day = l // DAY
        d = dtm.date(1970, 1, 1) + dtm.timedelta(days=day)
        return d, l % DAY

    def wall_to_instants(self, day: int, tod: int):
        """-> ('unique', i) | ('skipped', earlier_i, later_i) | ('repeated', first, second)"""
        d = dtm.date(1970, 1, 1) + dtm.timedelta(days=day)
        sec, sub = divmod(tod, NS)
        naive = dtm.datetime(d.year, d.month, d.day) + dtm.timedelta(seconds=sec)
        a = naive.replace(tzinfo=self.zi, fold=0)
        b = naive.replace(tzinfo=self.zi, fold=1)
        ua = int((a.astimezone(UTC) - EPOCH).total_seconds()) * NS + sub
        ub = int((b.astimezone(UTC) - EPOCH).total_seconds()) * NS + sub
        back_a = a.astimezone(UTC).astimezone(self.zi).replace(tzinfo=None)
        if ua == ub:
            return ('unique', ua)
        if back_a != naive:
            # gap: fold=0 uses the offset before the change (later instant), fold=1 the one after (earlier)
            return ('skipped', min(ua, ub), max(ua, ub))
        return ('repeated', min(ua, ub), max(ua, ub))

    # -- filters ----------------------------------------------------------------------------------
    def allow(self, f, i: int) -> bool:
        if f is None:
            return True
        d, tod = self.local_fields(i)
        return self._allow(f, d, tod)

    def _allow(self, f, d, tod) -> bool:
        k = f[0]
        if k == 'any':
            return any(self._allow(x, d, tod) for x in f[1])
        if k == 'all':
            return all(self._allow(x, d, tod) for x in f[1])
        if k == 'not':
            return not self._allow(f[1], d, tod)
        if k == 'time':
            return (f[1] is None or f[1] <= tod) and (f[2] is None or tod < f[2])
        if k == 'weekday':
            return d.isoweekday() in f[1]
        if k == 'day':
            return d.day in f[1]
        if k == 'month':
            return d.month in f[1]
        raise ValueError(k)

    # -- time of day with policy: the table of property C06 ---------------------------------------
    def day_occurrences(self, day: int, tod: int, sk: str, rp: str):
        """instants at which a time-of-day trigger fires for local day `day`; None = the search of the
        'after' policy has no answer (the implementation raises)"""
        r = self.wall_to_instants(day, tod)
        if r[0] == 'unique':
            return [r[1]]
        if r[0] == 'skipped':
            if sk == 'skip':
                return []
            if sk == 'earlier':
                return [r[1]]
            if sk == 'later':
                return [r[2]]
            base = (tod // (60 * NS)) * 60 * NS
            for k in range(1, 122):
                t = day * DAY + base + k * 60 * NS
                q = self.wall_to_instants(t // DAY, t % DAY)
                if q[0] == 'unique':
                    return [q[1]]
                if q[0] == 'repeated':
                    return None
            return None
        if rp == 'skip':
            return []
        if rp == 'earlier':
            return [r[1]]
        if rp == 'later':
            return [r[2]]
        return [r[1], r[2]]

    # -- reference "earliest admissible occurrence after dt" for time / interval / group ----------
    def next_time(self, e, dt: int, limit_days: int = 3300):
        _, tod, sk, rp, f = e
        day0 = self.local(dt) // DAY - 2
        best = None
        for day in range(day0, day0 + limit_days):
            occ = self.day_occurrences(day, tod, sk, rp)
            if occ is None:
                return 'unknown'
            for i in occ:
                if i > dt and self.allow(f, i) and (best is None or i < best):
                    best = i
            if best is not None and day > self.local(best) // DAY + 1:
                return best
        return 'unknown'

    def next_interval(self, e, dt: int, anchor, limit: int = 200000):
        _, start, iv, f = e
        if start is None:
            start = anchor
        if start is None:
            return 'unknown'
        g = start + ((dt - start) // iv + 1) * iv
        for _ in range(limit):
            if self.allow(f, g):
                return g
            g += iv
        return 'unknown'

    def next_ref(self, e, dt: int, anchors: dict, path=()):
        k = e[0]
        if k == 'time':
            return self.next_time(e, dt)
        if k == 'interval':
            return self.next_interval(e, dt, anchors.get(path))
        if k == 'group':
            x = dt
            for _ in range(5000):
                vals = [self.next_ref(m, x, anchors, path + (n,)) for n, m in enumerate(e[1])]
                if not vals or any(v == 'unknown' for v in vals):
                    return 'unknown'
                v = min(vals)
                if self.allow(e[2], v):
                    return v
                x = v
            return 'unknown'
        return 'unknown'

    def bound_instant(self, day: int, tod: int, sk: str, rp: str, dt: int):
        """the instant an earliest/latest bound denotes on a local day (None = no bound that day)"""
        occ = self.day_occurrences(day, tod, sk, rp)
        if occ is None:
            return 'unknown'
        if not occ:
            return None
        if len(occ) == 2:
            return occ[1] if occ[0] <= dt else occ[0]
        return occ[0]


def is_base(e) -> bool:
    if e[0] in ('time', 'interval'):
        return True
    if e[0] == 'group':
        return all(is_base(m) for m in e[1])
    return False


def interval_anchors(e, results, path=()) -> dict:
    """grid anchor of start-less intervals: first query instant + 1 microsecond (only exact for the
    top-level / group-member position where the first inner query equals the first outer query)"""
    out = {}
    if e[0] == 'interval' and e[1] is None and results:
        out[path] = results[0][0] + 1000
    if e[0] == 'group':
        for n, m in enumerate(e[1]):
            out.update(interval_anchors(m, results, path + (n,)))
    return out
