"""prod_coq.py — print producer cases as Coq terms (ProdCases.pcase)."""
from __future__ import annotations

SK = {'skip': 'SkSkip', 'earlier': 'SkEarlier', 'later': 'SkLater', 'after': 'SkAfter'}
RP = {'skip': 'RpSkip', 'earlier': 'RpEarlier', 'later': 'RpLater', 'twice': 'RpTwice'}


def z(v: int) -> str:
    return f'({v})' if v < 0 else str(v)


def optz(v) -> str:
    return 'None' if v is None else f'(Some {z(v)})'


def zlist(l) -> str:
    return '[' + '; '.join(z(x) for x in l) + ']'


def coq_filter(f) -> str:
    k = f[0]
    if k in ('any', 'all'):
        return f'({"FAny" if k == "any" else "FAll"} [' + '; '.join(coq_filter(x) for x in f[1]) + '])'
    if k == 'not':
        return f'(FNot {coq_filter(f[1])})'
    if k == 'time':
        return f'(FTime {optz(f[1])} {optz(f[2])})'
    if k == 'weekday':
        return f'(FWeekday {zlist(f[1])})'
    if k == 'day':
        return f'(FDay {zlist(f[1])})'
    if k == 'month':
        return f'(FMonth {zlist(f[1])})'
    raise ValueError(k)


def optf(f) -> str:
    return 'None' if f is None else f'(Some {coq_filter(f)})'


def tr(tod, sk, rp) -> str:
    return f'{{| tr_tod := {z(tod)}; tr_sk := {SK[sk]}; tr_rp := {RP[rp]} |}}'


class Ids:
    def __init__(self) -> None:
        self.n = 0

    def next(self) -> int:
        self.n += 1
        return self.n - 1


def coq_expr(e, ids: Ids) -> str:
    k = e[0]
    if k == 'time':
        return f'(PTime {tr(e[1], e[2], e[3])} {optf(e[4])})'
    if k == 'interval':
        return f'(PInterval {ids.next()}%nat {optz(e[1])} {z(e[2])} {optf(e[3])})'
    if k == 'group':
        return '(PGroup [' + '; '.join(coq_expr(x, ids) for x in e[1]) + f'] {optf(e[2])})'
    if k == 'offset':
        return f'(POffset {coq_expr(e[1], ids)} {z(e[2])} {optf(e[3])})'
    if k == 'earliest':
        return f'(PEarliest {coq_expr(e[1], ids)} {tr(e[2], e[3], e[4])} {optf(e[5])})'
    if k == 'latest':
        return f'(PLatest {coq_expr(e[1], ids)} {tr(e[2], e[3], e[4])} {optf(e[5])})'
    if k == 'jitter':
        return f'(PJitter {coq_expr(e[1], ids)} {z(e[2])} {z(e[3])} {optf(e[4])})'
    raise ValueError(k)


def coq_result(r) -> str:
    if r[0] == 'ok':
        return f'(Ok {z(r[1])})'
    if r[0] == 'raise':
        return f'(Raise {r[1]})'
    return 'OutOfFuel'


def coq_tz(t) -> str:
    return ('{| tz_init := %s; tz_trans := [%s] |}' % (z(t['init']), '; '.join(f'({z(a)}, {z(b)})' for a, b in t['trans'])))


def coq_case(c, tzname: str, fuel: int) -> str:
    qs = '; '.join(f'({z(dt)}, {coq_result(r)})' for dt, r in c['results'])
    ds = '; '.join(f'({z(a)}, {z(b)}, {z(x)})' for a, b, x in c['draws'])
    return ('{| pc_tz := %s; pc_expr := %s;\n   pc_draws := [%s]; pc_fuel := %d%%positive;\n   pc_queries := [%s] |}'
            % (tzname, coq_expr(c['expr'], Ids()), ds, c.get('fuel', fuel), qs))


def cases_file(cases: list[dict], tztab: dict, fuel: int) -> str:
    body = ';\n'.join(coq_case(c, 'the_tz', fuel) for c in cases)
    return ('From EAS Require Import Base Civil Time Filters Replace Producers ProdCases.\n'
            f'Definition the_tz : tz := {coq_tz(tztab)}.\n'
            'Definition cases : list pcase := [\n' + body + '\n].\n'
            'Eval vm_compute in (pmismatches cases).\n'
            'Eval vm_compute in (bad_indices answers_future cases).\n'
            'Eval vm_compute in (wf_tz_b the_tz).\n')


def debug_file(c: dict, tztab: dict, fuel: int) -> str:
    return ('From EAS Require Import Base Civil Time Filters Replace Producers ProdCases.\n'
            f'Definition the_tz : tz := {coq_tz(tztab)}.\n'
            f'Definition c : pcase := {coq_case(c, "the_tz", fuel)}.\n'
            'Eval vm_compute in (pcase_model c).\n')
