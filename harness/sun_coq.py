"""sun_coq.py — print sun-trigger cases as Coq terms (SunCases.scase)."""
from __future__ import annotations

from harness.prod_coq import coq_tz, optf

HEADER = 'From EAS Require Import Base Civil Time Filters Replace Producers SunCases.\n'


def z(v: int) -> str:
    """hexadecimal for long literals: Coq reads them several times faster than decimal ones"""
    if v < 0:
        return f'({v})'
    return hex(v) if v >= 10**7 else str(v)


def nat(n: int) -> str:
    return f'{n}%nat'


def coq_result(r) -> str:
    if r[0] == 'ok':
        return f'(Ok {z(r[1])})'
    if r[0] == 'raise':
        return f'(Raise {r[1]})'
    return 'OutOfFuel'


def coq_step(st) -> str:
    k = st[0]
    if k == 'loc':
        return 'SLoc None' if st[1] is None else f'SLoc (Some {nat(st[1])})'
    if k == 'q':
        return f'SQuery {nat(st[1])} {z(st[2])} {coq_result(st[3])}'
    if k == 'snap':
        return 'SSnap [' + '; '.join(f'SK {a} {z(d)} {l}' for a, d, l in st[1]) + ']'
    raise ValueError(k)


def coq_case(c: dict, tzname: str) -> str:
    prods = '; '.join(f'({nat(k)}, {optf(pd.get("filter"))})' for k, pd in zip(c['pkeys'], c['prods']))
    orc = '; '.join(f'OE {l} {k} {z(d)} {"None" if v is None else "(Some " + z(v) + ")"}' for l, k, d, v in c['oracle'])
    steps = ';\n     '.join(coq_step(s) for s in c['trace'])
    return ('{| sc_tz := %s; sc_prods := [%s];\n   sc_oracle := [%s];\n   sc_steps := [\n     %s] |}'
            % (tzname, prods, orc, steps))


def cases_file(cases: list[dict], tztab: dict) -> str:
    body = ';\n'.join(coq_case(c, 'the_tz') for c in cases)
    return (HEADER + f'Definition the_tz : tz := {coq_tz(tztab)}.\n'
            'Definition cases : list scase := [\n' + body + '\n].\n'
            'Eval vm_compute in (mismatches cases).\n'
            'Eval vm_compute in (not_events cases).\n')


def debug_file(c: dict, tztab: dict) -> str:
    return (HEADER + f'Definition the_tz : tz := {coq_tz(tztab)}.\n'
            f'Definition c : scase := {coq_case(c, "the_tz")}.\n'
            'Eval vm_compute in (scase_model c).\n')
