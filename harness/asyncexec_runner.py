"""asyncexec_runner.py — subprocess entry: run executor traces against the implementation, dump observations."""
import json
import sys

from harness.asyncexec_impl import run_case


def main() -> int:
    inp, outp = sys.argv[1], sys.argv[2]
    cases = json.load(open(inp))
    out = [run_case(c) for c in cases]
    json.dump(out, open(outp, 'w'))
    return 0


if __name__ == '__main__':
    sys.exit(main())
