"""taskmgr_gen.py — trace generators for the task-manager checks (C11, C12).

Traces are generated *adaptively* inside the implementation runner: the generator sees which coroutines are
parked / created / waking / done and which handle is at the head of the loop's ready queue, and picks the next
event among those that mean something in that situation (plus a small share of invalid requests).  All
randomness comes from `random.Random(case['gen']['seed'])`, the seed being drawn from the check's master
generator, so a run is reproducible; the concrete trace is returned and is what is replayed / given to Coq.

Profiles (boundary-biased):
  mixed    everything
  burst    runs of submissions that hit the bound, then the loop drains
  inside   bodies submit further coroutines when they are entered / resumed / about to finish
  between  submissions between a task's completion and its done-callback
  cancel   cancellation of the running task, before the first step, after the wake-up was scheduled, twice
  fail     failing coroutines (at the first step and after a park)
"""
from __future__ import annotations

import random

SEQ_MANAGERS = ([['seq'], ['dedup']]
                + [['seqlim', q, p] for q in (1, 2, 3) for p in ('skip', 'skip_first', 'skip_last')])
PAR_MANAGERS = ([['par']]
                + [['parlim', n, p] for n in (1, 2, 3) for p in ('skip', 'cancel_first', 'cancel_last')])
PROFILES = ['mixed', 'burst', 'inside', 'between', 'cancel', 'fail']

NEXT_W = {
    'mixed': (('park', 50), ('fin', 30), ('raise', 10), ('ret', 10)),
    'burst': (('park', 60), ('fin', 30), ('raise', 5), ('ret', 5)),
    'inside': (('park', 55), ('fin', 30), ('raise', 5), ('ret', 10)),
    'between': (('park', 25), ('fin', 55), ('raise', 10), ('ret', 10)),
    'cancel': (('park', 55), ('fin', 25), ('raise', 5), ('ret', 15)),
    'fail': (('park', 40), ('fin', 25), ('raise', 30), ('ret', 5)),
}


def gen_case(rng: random.Random, prop: str, i: int) -> dict:
    mgrs = SEQ_MANAGERS if prop == 'C11' else PAR_MANAGERS
    return {'mgr': mgrs[i % len(mgrs)],
            'gen': {'seed': rng.getrandbits(48), 'profile': PROFILES[(i // len(mgrs)) % len(PROFILES)],
                    'n': rng.choice((8, 14, 20, 28, 40))}}


def _wchoice(rng: random.Random, pairs):
    tot = sum(w for _, w in pairs)
    x = rng.random() * tot
    for v, w in pairs:
        x -= w
        if x < 0:
            return v
    return pairs[-1][0]


def _beh(rng: random.Random, profile: str, fresh, nkeys: int):
    psub = {'inside': 0.6, 'mixed': 0.2, 'burst': 0.15}.get(profile, 0.08)
    subs = []
    while rng.random() < psub and len(subs) < 3:
        subs.append([fresh(), rng.randrange(nkeys)])
    return [subs, _wchoice(rng, NEXT_W[profile])]


def next_event(rng: random.Random, profile: str, view: dict, fresh) -> list:
    """view: parked / created / waking / done / task (all with a task) / known : lists of coroutine ids,
    ready: loop._ready as codes.  -> concrete event"""
    parked, created, waking = view['parked'], view['created'], view['waking']
    live = parked + created + waking
    ready = view['ready']
    nkeys = 2 if profile != 'mixed' else 3
    w = {'submit': 3.0, 'run': 0.0, 'tick': 0.0, 'resolve': 0.0, 'fail': 0.0, 'cancel_live': 0.0,
         'cancel_created': 0.0, 'cancel_waking': 0.0, 'cancel_done': 0.0, 'invalid': 0.25}
    if ready:
        w['run'], w['tick'] = 5.0, 1.2
    if parked:
        w['resolve'], w['fail'] = 2.5, 0.8
    if live:
        w['cancel_live'] = 0.8
    if created:
        w['cancel_created'] = 0.7
    if waking:
        w['cancel_waking'] = 0.4
    if view['done']:
        w['cancel_done'] = 0.2
    if profile == 'burst':
        w['submit'] = 7.0 if view['phase_of_trace'] < 0.5 else 1.5
    elif profile == 'between':
        if any(r % 2 == 1 for r in ready):            # a done-callback is pending
            w['submit'] = 9.0
    elif profile == 'cancel':
        for k in ('cancel_live', 'cancel_created', 'cancel_waking'):
            w[k] *= 4
    elif profile == 'fail':
        w['fail'] *= 4
    kind = _wchoice(rng, list(w.items()))
    if kind == 'submit':
        return ['submit', fresh(), rng.randrange(nkeys)]
    if kind in ('run', 'tick'):
        n = 1 if kind == 'run' else sum(1 for r in ready if r % 2 == 0)
        return [kind, [_beh(rng, profile, fresh, nkeys) for _ in range(max(n, 1))]]
    if kind == 'resolve':
        return ['resolve', rng.choice(parked)]
    if kind == 'fail':
        return ['fail', rng.choice(parked)]
    if kind == 'cancel_live':
        return ['cancel', rng.choice(live)]
    if kind == 'cancel_created':
        return ['cancel', rng.choice(created)]
    if kind == 'cancel_waking':
        return ['cancel', rng.choice(waking)]
    if kind == 'cancel_done':
        return ['cancel', rng.choice(view['done'])]
    # invalid requests
    known = view['known']
    what = rng.choice(('resolve', 'fail', 'cancel', 'run', 'submit'))
    if what == 'run':
        return ['run', []] if not ready else ['resolve', 99]
    if what == 'submit':
        return ['submit', rng.choice(known), 0] if known else ['cancel', 0]
    pool = [c for c in known if c not in parked] if what != 'cancel' else [c for c in known if c not in view['task']]
    return [what, rng.choice(pool) if pool else 99]


# ---------------------------------------------------------------------------------------------------
# hand-written traces: one per situation the property text names (run first, on every manager of the group)
def scripted(prop: str) -> list[dict]:
    out = []
    mgrs = SEQ_MANAGERS if prop == 'C11' else PAR_MANAGERS
    P, F = [[], 'park'], [[], 'fin']
    scripts = [
        # four submissions, the loop drains, every coroutine finishes at once
        [['submit', 0, 0], ['submit', 1, 1], ['submit', 2, 0], ['submit', 3, 1]] + [['run', [F]]] * 9,
        # park / resolve / fail / cancel of the running one
        [['submit', 0, 0], ['submit', 1, 1], ['submit', 2, 2], ['run', [P]], ['resolve', 0], ['run', [P]],
         ['fail', 0], ['run', [F]], ['submit', 3, 0], ['run', []], ['run', [P]], ['cancel', 1], ['run', [F]],
         ['run', []], ['run', [P]], ['tick', [P]], ['cancel', 2], ['tick', [F]], ['tick', []], ['tick', [F]]],
        # cancellation before the first step
        [['submit', 0, 0], ['submit', 1, 0], ['cancel', 0], ['run', [P]], ['run', []], ['cancel', 1], ['cancel', 1],
         ['run', [P]], ['run', []]],
        # submissions from inside a body, also when it is about to finish; self-cancellation by the policy
        [['submit', 0, 0], ['run', [[[[1, 0], [2, 1], [3, 0], [4, 1]], 'park']]], ['resolve', 0],
         ['run', [[[[5, 0], [6, 1]], 'fin']]], ['submit', 7, 1], ['run', []], ['tick', [P, P, P, P]],
         ['tick', [P, P, P]], ['tick', [F, F, F]]],
        # the wake-up is already scheduled when the cancellation arrives; swallowed cancellation
        [['submit', 0, 0], ['submit', 1, 1], ['run', [P]], ['resolve', 0], ['cancel', 0], ['run', [P]], ['cancel', 0],
         ['run', [[[], 'ret']]], ['run', []], ['run', [[[], 'raise']]], ['run', []]],
    ]
    for m in mgrs:
        for evs in scripts:
            out.append({'mgr': m, 'evs': evs, 'profile': 'scripted'})
    return out
