"""getinstant.py — check of property C19 (every accepted way to say "when" resolves to the instant it denotes).

Per zone: one subprocess with TZ=<zone>; the clock is patched per case (`whenever.patch_current_time`), the calls
go through the public API inside a running event loop: `get_instant`, `JobBuilder.once`, `JobBuilder.countdown`,
`TriggerBuilder.interval`, `.offset`, `.jitter`.  The answers are compared with the model (GetInstant.v) inside
Coq, with the zone's table extracted from whenever itself, and judged by an independent zoneinfo oracle."""
from __future__ import annotations

import collections
import json
import random
import re
import subprocess
from concurrent.futures import ThreadPoolExecutor
from pathlib import Path

from harness import getinstant_coq
from harness.getinstant_gen import Gen, pinned
from harness.getinstant_oracle import Zone, check
from lib import coqrun

VERIF = Path(__file__).resolve().parent.parent
CORPUS = VERIF / 'corpus'
COQ_TARGETS = ['theories/GetInstantCases.vo', 'theories/GetInstantFacts.vo']

ZONES_QUICK = ['Europe/Berlin', 'America/Nuuk', 'Australia/Lord_Howe', 'America/Havana', 'America/St_Johns',
               'Asia/Kolkata', 'Pacific/Auckland', 'UTC', 'America/Sao_Paulo', 'Africa/Casablanca']
ZONES_MORE = ['America/New_York', 'Europe/London', 'Asia/Tehran', 'Antarctica/Troll', 'America/Santiago',
              'Pacific/Chatham', 'Africa/Cairo', 'Asia/Gaza', 'America/Goose_Bay', 'Antarctica/Casey',
              'Pacific/Apia', 'Asia/Kathmandu', 'America/Scoresbysund', 'Europe/Lisbon']
PER_ZONE = {'quick': 260, 'thorough': 2600}
SHARD = 400

ASSUMPTIONS = {'C19': [
    'the time-zone table (1999-2041) of each zone is extracted from whenever itself under TZ=<zone> on every run; '
    'current instants and naive datetimes are taken from 2001-2036',
    'reading a Python value into the model\'s argument type asks whenever for float seconds -> nanoseconds and for '
    'the parsing of ISO-8601 durations / times of day (harness/getinstant_read.py); these two conversions are not modelled',
    'stored float seconds (countdown length, interval, offset, jitter bounds) are read back by exact rounding to '
    'nanoseconds; durations are kept below 10^15 ns where this is exact',
    'the "least instant" theorem (C19_time_of_day_next) assumes a well-formed table whose local date does not go '
    'backwards between 4 h before now and 2 days 4 h after it; both hypotheses are evaluated in Coq for every zone '
    'and every case (extra.zones_wf_tz, extra.cases_outside_hypothesis_dates_forward)',
]}
RULE = ('a case is one API call (an "instant" case counts twice: get_instant and JobBuilder.once); non-trivial iff the '
        'argument denotes something (an instant, a time of day, a duration) rather than being unreadable, and the '
        'reading was possible; distinct by (zone, call, now, argument descriptions)')


# --------------------------------------------------------------------------------------------------
def _tables(zones: list[str]) -> dict:
    env = {'PYTHONPATH': f'{coqrun.REPO}/src', 'PATH': '/usr/bin:/bin'}

    def one(zone: str):
        r = subprocess.run(['/venv/bin/python', str(VERIF / 'tools' / 'gen_zones.py'), zone], env=env,
                           capture_output=True, text=True, timeout=600)
        if r.returncode != 0:
            raise RuntimeError('gen_zones failed: ' + r.stderr[-2000:])
        return json.loads(r.stdout)
    out = {}
    with ThreadPoolExecutor(max_workers=coqrun.JOBS) as ex:
        for d in ex.map(one, zones):
            out.update(d)
    return out


def _impl_zone(zone: str, cases: list, scratch: Path, tag: str = '') -> list:
    name = zone.replace('/', '_') + tag
    inp, outp = scratch / f'gi_in_{name}.json', scratch / f'gi_out_{name}.json'
    inp.write_text(json.dumps(cases))
    env = {'PYTHONPATH': f'{coqrun.REPO}/src:{VERIF}', 'PYTHONHASHSEED': '0', 'PATH': '/usr/bin:/bin', 'TZ': zone}
    r = subprocess.run(['/venv/bin/python', '-u', '-m', 'harness.getinstant_runner', str(inp), str(outp)], cwd=VERIF,
                       env=env, capture_output=True, text=True, timeout=1800)
    if r.returncode != 0:
        raise RuntimeError(f'C19 runner failed in {zone}: ' + r.stderr[-3000:])
    return json.loads(outp.read_text())


def arg_kind(a) -> str:
    if a is None:
        return 'absent'
    k = a['spec'][0]
    if k in ('str', 'mystr'):
        m = a['means'][0]
        return f'{k}:' + {'dur': 'iso-duration', 'tod': 'time', 'bad': 'unparsable'}.get(m, m)
    if k == 'junk':
        return 'junk:' + a['spec'][1]
    if k in ('aware', 'myaware'):
        return k + ':zoneinfo'
    return k


def case_args(c: dict) -> list:
    return [c[k] for k in ('arg', 'start', 'iv', 'lo', 'hi') if k in c and c[k] is not None]


def _generate(prop: str, tier: str, rng: random.Random, zones: list, tables: dict) -> dict:
    per_zone = {}
    for zn in zones:
        g = Gen(rng, zn, tables[zn])
        cases = []
        d = CORPUS / prop
        if d.is_dir():
            for p in sorted(d.glob('*.json')):
                cc = json.loads(p.read_text())['case']
                if cc.get('zone') == zn:
                    cases.append(cc)
        cases += pinned(zn)
        cases += [g.case() for _ in range(PER_ZONE[tier])]
        for c in cases:
            c['zone'] = zn
        per_zone[zn] = cases
    return per_zone


# --------------------------------------------------------------------------------------------------
def run(prop: str, tier: str, seed: int, scratch: Path, replay=None, model_ok=True) -> dict:
    rng = random.Random(f'{prop}-{seed}')
    zones = list(ZONES_QUICK) if tier == 'quick' else ZONES_QUICK + ZONES_MORE
    per_zone: dict[str, list] = {}
    if replay:
        payload = json.loads(Path(replay).read_text())
        zones = [payload['case']['zone']]
        per_zone[zones[0]] = [payload['case']]
    tables = _tables(zones)
    if not replay:
        per_zone = _generate(prop, tier, rng, zones, tables)
    with ThreadPoolExecutor(max_workers=coqrun.JOBS) as ex:
        outs = list(ex.map(lambda zn: (zn, _impl_zone(zn, per_zone[zn], scratch)), zones))

    spec_violations, corr_failures = [], []
    kinds, calls, errors, excs, notes_c, now_place = (collections.Counter() for _ in range(6))
    seen = set()
    nontriv = 0
    evaluations = 0
    outside = 0
    files, index = [], {}
    for zn, results in outs:
        zone = Zone(zn)
        terms, owners = [], []
        for c in results:
            calls[c['call']] += 1
            for a in case_args(c):
                kinds[arg_kind(a)] += 1
            for name, o in c['obs'].items():
                evaluations += 1
                errors[f'{name}:' + ('ok' if o[0] == 'ok' else o[1])] += 1
            for name, e in c['exc'].items():
                excs[e] += 1
            bad, notes = check(zone, c)
            for n in notes:
                notes_c[n] += 1
            for msg in bad[:1]:
                spec_violations.append({'what': msg, 'all': bad[:4], 'case': c, 'observed': c['obs'], 'zone': zn,
                                        'op_index': 0, 'class': violation_class(msg)})
            if c.get('outside'):
                outside += 1
                continue
            h = hash(json.dumps([zn, c['call'], c['now'], [a['spec'] for a in case_args(c)]], sort_keys=True))
            if h not in seen and all(a['means'][0] != 'bad' for a in case_args(c)):
                nontriv += len(c['obs'])
            seen.add(h)
            for t in getinstant_coq.coq_cases(c):
                terms.append(t)
                owners.append(c)
        for s in range(0, len(terms), SHARD):
            p = scratch / f'gc_{zn.replace("/", "_")}_{s // SHARD}.v'
            p.write_text(getinstant_coq.cases_file(terms[s:s + SHARD], tables[zn]))
            files.append(p)
            index[p.name] = (zn, terms[s:s + SHARD], owners[s:s + SHARD])

    wf = {}
    outside_hyp = collections.Counter()
    if model_ok:
        for p, rc, out in coqrun.eval_cases(files):
            zn, terms, owners = index[p.name]
            if rc != 0:
                corr_failures.append({'file': p.name, 'zone': zn, 'error': out[-1500:]})
                continue
            flat = ' '.join(out.split())
            lists = re.findall(r'= (\[[^\]]*\]) : list nat', flat)
            m3 = re.search(r'= (true|false) : bool', flat)
            if len(lists) != 2 or not m3:
                corr_failures.append({'file': p.name, 'zone': zn, 'error': 'cannot parse: ' + flat[-400:]})
                continue
            wf[zn] = m3.group(1) == 'true'
            outside_hyp[zn] += len(coqrun.parse_nats(lists[1]))
            for k in coqrun.parse_nats(lists[0]):
                dout = ''
                if len(corr_failures) < 3:
                    dbg = scratch / f'gdbg_{len(corr_failures)}.v'
                    dbg.write_text(getinstant_coq.debug_file(terms[k], tables[zn]))
                    _, dout = coqrun.coqc_file(dbg)
                corr_failures.append({'zone': zn, 'case': owners[k], 'coq_case': terms[k],
                                      'implementation': owners[k]['obs'], 'exceptions': owners[k]['exc'],
                                      'model_answer_coq': ' '.join(dout.split())[-600:]})
    else:
        corr_failures.append({'error': 'model does not build'})

    samples = []
    for zn, results in outs[:3]:
        for c in results[:2]:
            samples.append({'zone': zn, 'call': c['call'], 'now': c['now'],
                            'args': {k: c[k]['spec'] for k in ('arg', 'start', 'iv', 'lo', 'hi') if c.get(k)},
                            'reads': c['reads'], 'obs': c['obs']})
    return {
        'evaluations': evaluations, 'distinct_nontrivial': nontriv, 'rule': RULE, 'samples': samples,
        'corr_failures': corr_failures, 'spec_violations': spec_violations,
        'distribution': {'argument_kinds': dict(sorted(kinds.items())), 'calls': dict(calls), 'zones': zones,
                         'cases_per_zone': {zn: len(r) for zn, r in outs},
                         'outcomes (call:ok|error enum)': dict(sorted(errors.items())),
                         'exception_classes': dict(excs)},
        'extra': {'oracle_notes': dict(sorted(notes_c.items())), 'zones_wf_tz': wf,
                  'cases_outside_hypothesis_dates_forward': dict(outside_hyp),
                  'readings_not_possible (e.g. OverflowError for a huge int)': outside},
    }


def search(prop: str, seed: int, scratch: Path) -> list:
    rng = random.Random(f'search-{prop}-{seed}')
    zones = ZONES_QUICK + ZONES_MORE
    tables = _tables(zones)
    per_zone = {}
    for zn in zones:
        g = Gen(rng, zn, tables[zn])
        per_zone[zn] = [dict(g.case(), zone=zn) for _ in range(3000)]
    with ThreadPoolExecutor(max_workers=coqrun.JOBS) as ex:
        outs = list(ex.map(lambda zn: (zn, _impl_zone(zn, per_zone[zn], scratch, '_search')), zones))
    found = []
    for zn, results in outs:
        zone = Zone(zn)
        for c in results:
            bad, _ = check(zone, c)
            for msg in bad[:1]:
                found.append({'what': msg, 'case': c, 'observed': c['obs'], 'zone': zn, 'op_index': 0,
                              'class': violation_class(msg)})
    found.sort(key=lambda v: len(json.dumps(v['case'])))
    return found


def violation_class(msg: str) -> str:
    m = re.match(r'\[(\w+)\]', msg)
    return m.group(1) if m else 'other'


def match_known(prop: str, v: dict, known: list):
    """a known finding matches by its 'violation_class' (e.g. 'tod_refused'), or by a regular expression
    'what_pattern' on the message"""
    cls = v.get('class') or violation_class(v.get('what', ''))
    for f in known:
        if f.get('violation_class') and f['violation_class'] == cls:
            return f['id']
        pat = f.get('what_pattern')
        if pat and re.search(pat, v.get('what', '')):
            return f['id']
    return None


def replay_known(prop: str, f: dict, scratch: Path):
    if 'case' not in f:
        return None
    c = f['case']
    res = _impl_zone(c['zone'], [c], scratch, '_known')
    bad, _ = check(Zone(c['zone']), res[0])
    return bool(bad)
