"""sched_async.py — C10 / C08 with the ASYNCHRONOUS executor: coroutine jobs run through the real AsyncExecutor and
the real task managers on the virtual loop.  Oracle only (the Coq model covers the synchronous executor path):
every exception raised by a job coroutine reaches the exception handler exactly once, whatever task manager is
busy with; the failing job keeps its schedule; a countdown reset from the job's own coroutine re-arms it.
Run as a module: prints a JSON list of violations."""
import asyncio
import json
import random
import sys


def scenario(seed: int) -> list:
    from whenever import Instant, TimeDelta
    from eascheduler.builder.jobs import JobBuilder
    from eascheduler.builder.triggers import TriggerObject
    from eascheduler.errors.handler import default_exception_handler, set_exception_handler
    from eascheduler.executor.base import AsyncExecutor
    from eascheduler.schedulers.async_scheduler import AsyncScheduler
    from eascheduler.task_managers import (LimitingSequentialTaskManager, ParallelTaskManager,
                                           SequentialDeduplicatingTaskManager, SequentialTaskManager)
    from harness.sched_impl import ScriptProducer, UserErr
    from lib.vloop import EPOCH0_NS, drain, virtual_time

    rng = random.Random(seed)
    bad = []
    t0 = EPOCH0_NS
    S = 10**9
    with virtual_time(t0) as (clock, loop):
        asyncio.set_event_loop(loop)
        handled, raised, entered = [], [], []

        class RT:
            ev = []
        rt = RT()

        async def main():
            sched = AsyncScheduler()
            kind = rng.choice(['parallel', 'sequential', 'sequential', 'limiting'])
            tm = {'parallel': ParallelTaskManager, 'sequential': SequentialTaskManager,
                  'limiting': lambda: LimitingSequentialTaskManager(50, 'skip')}[kind]()
            builder = JobBuilder(sched, lambda f, a, k: AsyncExecutor(f, a, k, task_manager=tm))
            set_exception_handler(lambda e: handled.append(e.payload if isinstance(e, UserErr) else ['other', repr(e)]))
            gate = loop.create_future()
            njobs = rng.choice([2, 3, 4])
            fail = {(j, k) for j in range(njobs) for k in range(6) if rng.random() < 0.35}
            counts = {}

            callfail = {j for j in range(njobs) if rng.random() < 0.3}    # these raise when CALLED, not when awaited

            def make(j):
                if j in callfail and j != 0:
                    def plain():
                        # an ordinary callable that returns an awaitable, or raises before it gets that far
                        k = counts.get(j, 0)
                        counts[j] = k + 1
                        entered.append([j, k, clock.ns])
                        if (j, k) in fail:
                            raised.append(['exec', j, k])
                            raise UserErr(['exec', j, k])
                        return asyncio.sleep(0)
                    return plain

                async def coro():
                    k = counts.get(j, 0)
                    counts[j] = k + 1
                    entered.append([j, k, clock.ns])
                    if j == 0 and k == 0:
                        await gate                      # keeps a sequential manager busy for a while
                    else:
                        await asyncio.sleep(0)
                    if (j, k) in fail:
                        raised.append(['exec', j, k])
                        raise UserErr(['exec', j, k])
                return coro
            ctrls = []
            for j in range(njobs):
                spec = {'start': t0, 'iv': (j + 1) * S, 'fail': set()}
                ctrls.append(builder.at(TriggerObject(ScriptProducer(spec, {'j': j, 'k': 0}, rt)), make(j)))
            # a countdown job that resets itself from its own coroutine (C08)
            cd_runs = []
            cell = {}

            async def cd_coro():
                cd_runs.append(clock.ns)
                if len(cd_runs) < 3:
                    cell['c'].reset()
            cd = builder.countdown(TimeDelta(seconds=1.5), cd_coro)
            cell['c'] = cd
            cd.reset()
            expect_cd = [t0 + 1_500_000_000]
            for step in range(14):
                nxt = min(c._job.next_run.timestamp_nanos() for c in ctrls + [cd] if c._job.next_run is not None)
                clock.set(nxt)
                await drain(loop)
                if step == 6 and not gate.done():
                    gate.set_result(None)
                    await drain(loop)
                for c in ctrls:
                    if c._job.status.value != 'running' or c._job.next_run.timestamp_nanos() <= clock.ns:
                        bad.append(f'seed {seed} [{kind}]: recurring job not rescheduled into the future after a wake-up: '
                                   f'{c._job!r} at {clock.ns}')
            if not gate.done():
                gate.set_result(None)
            await drain(loop)
            if sched.timer is not None:
                sched.timer.cancel()
            # one start per due time: a failure must not make the scheduler start the job again for the same due time
            for j in range(njobs):
                iv = (j + 1) * S
                want = (clock.ns - t0) // iv
                got = sum(1 for e in entered if e[0] == j)
                if got != want:
                    bad.append(f'seed {seed} [{kind}]: job {j} (every {j + 1} s) was started {got} times, '
                               f'{want} due times passed; call-time failures: {sorted(callfail)}')
            hs = sorted(map(json.dumps, handled))
            rs = sorted(map(json.dumps, raised))
            if hs != rs:
                bad.append(f'seed {seed} [{kind}]: exception handler received {len(hs)} exceptions {hs[:4]}..., '
                           f'{len(rs)} job coroutines raised {rs[:4]}...')
            # with a sequential manager the coroutine may be ENTERED late (queued behind a busy task); each reset from
            # inside the coroutine re-arms the countdown for exactly reset instant + 1.5 s
            if len(cd_runs) != 3 or (kind == 'parallel' and cd_runs[0] != expect_cd[0]) or cd_runs[0] < expect_cd[0]:
                bad.append(f'seed {seed} [{kind}]: countdown resetting itself from its coroutine ran at {cd_runs}')
            elif any(b - a != 1_500_000_000 for a, b in zip(cd_runs, cd_runs[1:])):
                bad.append(f'seed {seed} [{kind}]: self-resetting countdown intervals {cd_runs}')
        try:
            loop.run_until_complete(main())
        finally:
            asyncio.set_event_loop(None)
            set_exception_handler(default_exception_handler)
    return bad


def scenario_handler(seed: int) -> list:
    """C10 with an exception handler that REACTS: when job A fails the handler cancels / pauses a companion job W whose
    own on_finished / on_update callback fails too, so a second exception is processed while the handler is still
    running.  Every raised exception must reach the handler exactly once, the job B due at the same instant and the
    later job C still run, W ends as the reaction says.  (Synchronous executor; the property excludes nothing of
    this: 'any subset of callables, coroutines, callbacks and triggers raise at any of their invocations'.)"""
    from whenever import Instant
    from eascheduler.builder.jobs import JobBuilder
    from eascheduler.builder.triggers import TriggerObject
    from eascheduler.errors.handler import default_exception_handler, set_exception_handler
    from eascheduler.executor.base import SyncExecutor
    from eascheduler.schedulers.async_scheduler import AsyncScheduler
    from harness.sched_impl import ScriptProducer, UserErr
    from lib.vloop import EPOCH0_NS, drain, virtual_time

    rng = random.Random(f'handler-{seed}')
    bad = []
    t0 = EPOCH0_NS
    S = 10**9
    with virtual_time(t0) as (clock, loop):
        asyncio.set_event_loop(loop)
        handled, raised, ran = [], [], []

        class RT:
            ev = []
        rt = RT()

        async def main():
            sched = AsyncScheduler()
            builder = JobBuilder(sched, lambda f, a, k: SyncExecutor(f, a, k))
            reaction = rng.choice(['cancel', 'pause', 'cancel', 'unregister'])
            w_recurring = rng.random() < 0.5
            ncb = rng.choice([1, 2])
            cell = {}

            def w_cb(i):
                def cb(job):
                    raised.append(['cb', i])
                    raise UserErr(['cb', i])
                return cb
            if w_recurring:
                w = builder.at(TriggerObject(ScriptProducer({'start': t0, 'iv': 3600 * S, 'fail': set()},
                                                            {'j': 9, 'k': 0}, rt)), lambda: ran.append('W'))
            else:
                w = builder.once(Instant.from_timestamp_nanos(t0 + 3600 * S), lambda: ran.append('W'))
                reaction = 'cancel'
            seen_cb = []
            if reaction == 'unregister':
                # the handler REMOVES the callback that has just failed from the handler list that is being run: the callbacks
                # registered after it must still be called for this event
                w_recurring_cbs = [w_cb(0), (lambda job: seen_cb.append('second')), (lambda job: seen_cb.append('third'))]
                for cb in w_recurring_cbs:
                    w._job.on_update.register(cb)
            else:
                for i in range(ncb):
                    (w._job.on_finished if reaction == 'cancel' else w._job.on_update).register(w_cb(i))
            cell['done'] = False

            def handler(e):
                handled.append(e.payload if isinstance(e, UserErr) else ['other', repr(e)])
                if reaction == 'unregister' and isinstance(e, UserErr) and e.payload == ['cb', 0]:
                    w._job.on_update.remove(w_recurring_cbs[0])
                if isinstance(e, UserErr) and e.payload == ['exec', 'A'] and not cell['done']:
                    cell['done'] = True
                    if reaction == 'unregister':
                        if w_recurring:
                            w.pause()               # an on_update event for W: its first callback fails and is removed
                    else:
                        (w.cancel if reaction == 'cancel' else w.pause)()
            set_exception_handler(handler)

            def fail_a():
                ran.append('A')
                raised.append(['exec', 'A'])
                raise UserErr(['exec', 'A'])
            at = t0 + rng.choice([1, 2, 5]) * S
            order = ['A', 'B']
            rng.shuffle(order)
            for name in order:
                if name == 'A':
                    builder.once(Instant.from_timestamp_nanos(at), fail_a)
                else:
                    builder.once(Instant.from_timestamp_nanos(at), lambda: ran.append('B'))
            builder.once(Instant.from_timestamp_nanos(at + S), lambda: ran.append('C'))
            clock.set(at)
            await drain(loop)
            clock.set(at + S)
            await drain(loop)
            if sched.timer is not None:
                sched.timer.cancel()
            tag = f'handler-seed {seed} [{reaction}, recurring={w_recurring}, callbacks={ncb}]'
            hs, rs = sorted(map(json.dumps, handled)), sorted(map(json.dumps, raised))
            if hs != rs:
                bad.append(f'{tag}: exception handler received {hs}, raised were {rs}')
            if sorted(ran) != ['A', 'B', 'C']:
                bad.append(f'{tag}: executed {ran}, expected A, B and C once each')
            if reaction == 'unregister' and w_recurring and seen_cb != ['second', 'third']:
                bad.append(f'{tag}: the handler removed the failing callback; the callbacks after it saw the event as {seen_cb}, '
                           "expected ['second', 'third']")
            want = 'finished' if reaction == 'cancel' else ('paused' if (reaction == 'pause' or w_recurring) else 'running')
            if w._job.status.value != want:
                bad.append(f'{tag}: companion job is {w._job.status.value}, expected {want}')
        try:
            loop.run_until_complete(main())
        finally:
            asyncio.set_event_loop(None)
            set_exception_handler(default_exception_handler)
    return bad


def scenario_remove_all(seed: int) -> list:
    """AsyncScheduler.remove_all() against the history it is modelled as (SchedRemoveAll.v): two identical
    schedulers; on one remove_all() is called, on the twin every queued job is cancelled from the back of the
    queue to the front.  Both must end in the same state, and - theorem remove_all_spec - nothing is executed
    meanwhile, the queue is empty, the timer disarmed, exactly the queued jobs are finished (on_finished once each,
    taken out of the store), paused jobs are left alone."""
    from whenever import Instant, TimeDelta
    from eascheduler.builder.jobs import JobBuilder
    from eascheduler.builder.triggers import TriggerObject
    from eascheduler.errors.handler import default_exception_handler, set_exception_handler
    from eascheduler.executor.base import SyncExecutor
    from eascheduler.job_stores import InMemoryStore
    from eascheduler.schedulers.async_scheduler import AsyncScheduler
    from harness.sched_impl import ScriptProducer
    from lib.vloop import EPOCH0_NS, drain, virtual_time

    rng = random.Random(f'removeall-{seed}')
    bad = []
    t0 = EPOCH0_NS
    S = 10**9
    with virtual_time(t0) as (clock, loop):
        asyncio.set_event_loop(loop)
        handled = []

        class RT:
            ev = []
        rt = RT()
        plan = []
        for j in range(rng.choice([1, 2, 3, 5, 7])):
            plan.append((rng.choice(['once', 'once', 'at', 'countdown', 'countdown_idle', 'at_paused']),
                         rng.choice([1, 2, 2, 3, 5, 8]) * S, rng.random() < 0.5))
        advance = rng.choice([0, 1, 2, 4, 9]) * S
        enabled = rng.random() < 0.8

        def build(tag):
            sched = AsyncScheduler(enabled=enabled)
            store = InMemoryStore()
            builder = JobBuilder(sched, lambda f, a, k: SyncExecutor(f, a, k), store)
            log = {'exec': [], 'fin': [], 'upd': []}
            ctrls = []
            for j, (kind, d, cb) in enumerate(plan):
                fn = (lambda j=j: log['exec'].append([j, clock.ns]))
                if kind == 'once':
                    c = builder.once(Instant.from_timestamp_nanos(t0 + d), fn, job_id=j)
                elif kind in ('at', 'at_paused'):
                    c = builder.at(TriggerObject(ScriptProducer({'start': t0, 'iv': d, 'fail': set()},
                                                                {'j': j, 'k': 0}, rt)), fn, job_id=j)
                    if kind == 'at_paused':
                        c.pause()
                else:
                    c = builder.countdown(TimeDelta(nanoseconds=d), fn, job_id=j)
                    if kind == 'countdown':
                        c.reset()
                if cb:
                    c._job.on_finished.register(lambda job, j=j: log['fin'].append(j))
                    c._job.on_update.register(lambda job, j=j: log['upd'].append(j))
                ctrls.append(c)
            return sched, store, log, ctrls

        def view(sched, store, log, ctrls):
            return {'queue': [ctrls.index(next(c for c in ctrls if c._job is jb)) for jb in sched.jobs],
                    'timer': sched.timer is not None,
                    'jobs': [[c._job.status.value, None if c._job.next_run is None else c._job.next_run.timestamp_nanos(),
                              c._job._scheduler is not None] for c in ctrls],
                    'store': sorted(store._jobs), 'log': {k: list(v) for k, v in log.items()}}

        async def main():
            set_exception_handler(lambda e: handled.append(repr(e)))
            a = build('a')
            b = build('b')
            await drain(loop)
            clock.set(t0 + advance)          # the loop is NOT given a chance to run: some jobs are overdue now
            before = view(*a)
            if before != view(*b):
                bad.append(f'removeall-seed {seed}: twin schedulers differ before the operation')
                return
            try:
                a[0].remove_all()
            except Exception as e:      # noqa: BLE001
                bad.append(f'removeall-seed {seed} plan={plan} advance={advance}: remove_all() raised {e!r}; '
                           f'executed meanwhile: {a[2]["exec"][len(before["log"]["exec"]):]}')
                return
            for jb in tuple(reversed(b[0].jobs)):
                jb.job_finish()
            va, vb = view(*a), view(*b)
            tag = f'removeall-seed {seed} plan={plan} advance={advance} enabled={enabled}'
            if va != vb:
                bad.append(f'{tag}: remove_all() {va} differs from cancelling the queue back to front {vb}')
            if va['log']['exec'] != before['log']['exec']:
                bad.append(f'{tag}: remove_all() executed jobs: {va["log"]["exec"]}')
            if va['queue'] or va['timer']:
                bad.append(f'{tag}: after remove_all() queue={va["queue"]} timer armed={va["timer"]}')
            for j, (x, y) in enumerate(zip(before['jobs'], va['jobs'])):
                if j in before['queue']:
                    if y != ['finished', None, False]:
                        bad.append(f'{tag}: queued job {j} is {y} after remove_all()')
                    if j in va['store']:
                        bad.append(f'{tag}: finished job {j} is still in the job store')
                    if plan[j][2] and va['log']['fin'].count(j) != 1:
                        bad.append(f'{tag}: on_finished of job {j} ran {va["log"]["fin"].count(j)} times')
                elif x != y:
                    bad.append(f'{tag}: job {j} was not queued but changed {x} -> {y}')
            if handled:
                bad.append(f'{tag}: exceptions {handled[:3]}')
            for sch in (a[0], b[0]):
                if sch.timer is not None:
                    sch.timer.cancel()
        try:
            loop.run_until_complete(main())
        finally:
            asyncio.set_event_loop(None)
            set_exception_handler(default_exception_handler)
    return bad


def main() -> int:
    n = int(sys.argv[1]) if len(sys.argv) > 1 else 40
    seed0 = int(sys.argv[2]) if len(sys.argv) > 2 else 0
    which = sys.argv[3] if len(sys.argv) > 3 else 'all'
    out = []
    for i in range(n):
        if which in ('all', 'async'):
            out += scenario(seed0 * 1000 + i)
        if which in ('all', 'handler'):
            out += scenario_handler(seed0 * 1000 + i)
        if which in ('all', 'removeall'):
            out += scenario_remove_all(seed0 * 1000 + i)
    json.dump(out[:20], sys.stdout)
    return 0


if __name__ == '__main__':
    sys.exit(main())
