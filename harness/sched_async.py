"""sched_async.py — C10 / C08 with the ASYNCHRONOUS executor: coroutine jobs run through the real AsyncExecutor and
the real task managers on the virtual loop.  Oracle only (the Coq model covers the synchronous executor path):
every exception raised by a job coroutine reaches the exception handler exactly once, whatever task manager is
busy with; the failing job keeps its schedule; a countdown reset from the job's own coroutine re-arms it.
Run as a module: prints a JSON list of violations."""
import asyncio
import json
import random
import sys


def scenario(seed: int) -> list:
    from whenever import Instant, TimeDelta
    from eascheduler.builder.jobs import JobBuilder
    from eascheduler.builder.triggers import TriggerObject
    from eascheduler.errors.handler import default_exception_handler, set_exception_handler
    from eascheduler.executor.base import AsyncExecutor
    from eascheduler.schedulers.async_scheduler import AsyncScheduler
    from eascheduler.task_managers import (LimitingSequentialTaskManager, ParallelTaskManager,
                                           SequentialDeduplicatingTaskManager, SequentialTaskManager)
    from harness.sched_impl import ScriptProducer, UserErr
    from lib.vloop import EPOCH0_NS, drain, virtual_time

    rng = random.Random(seed)
    bad = []
    t0 = EPOCH0_NS
    S = 10**9
    with virtual_time(t0) as (clock, loop):
        asyncio.set_event_loop(loop)
        handled, raised, entered = [], [], []

        class RT:
            ev = []
        rt = RT()

        async def main():
            sched = AsyncScheduler()
            kind = rng.choice(['parallel', 'sequential', 'sequential', 'limiting'])
            tm = {'parallel': ParallelTaskManager, 'sequential': SequentialTaskManager,
                  'limiting': lambda: LimitingSequentialTaskManager(50, 'skip')}[kind]()
            builder = JobBuilder(sched, lambda f, a, k: AsyncExecutor(f, a, k, task_manager=tm))
            set_exception_handler(lambda e: handled.append(e.payload if isinstance(e, UserErr) else ['other', repr(e)]))
            gate = loop.create_future()
            njobs = rng.choice([2, 3, 4])
            fail = {(j, k) for j in range(njobs) for k in range(6) if rng.random() < 0.35}
            counts = {}

            def make(j):
                async def coro():
                    k = counts.get(j, 0)
                    counts[j] = k + 1
                    entered.append([j, k, clock.ns])
                    if j == 0 and k == 0:
                        await gate                      # keeps a sequential manager busy for a while
                    else:
                        await asyncio.sleep(0)
                    if (j, k) in fail:
                        raised.append(['exec', j, k])
                        raise UserErr(['exec', j, k])
                return coro
            ctrls = []
            for j in range(njobs):
                spec = {'start': t0, 'iv': (j + 1) * S, 'fail': set()}
                ctrls.append(builder.at(TriggerObject(ScriptProducer(spec, {'j': j, 'k': 0}, rt)), make(j)))
            # a countdown job that resets itself from its own coroutine (C08)
            cd_runs = []
            cell = {}

            async def cd_coro():
                cd_runs.append(clock.ns)
                if len(cd_runs) < 3:
                    cell['c'].reset()
            cd = builder.countdown(TimeDelta(seconds=1.5), cd_coro)
            cell['c'] = cd
            cd.reset()
            expect_cd = [t0 + 1_500_000_000]
            for step in range(14):
                nxt = min(c._job.next_run.timestamp_nanos() for c in ctrls + [cd] if c._job.next_run is not None)
                clock.set(nxt)
                await drain(loop)
                if step == 6 and not gate.done():
                    gate.set_result(None)
                    await drain(loop)
                for c in ctrls:
                    if c._job.status.value != 'running' or c._job.next_run.timestamp_nanos() <= clock.ns:
                        bad.append(f'seed {seed} [{kind}]: recurring job not rescheduled into the future after a wake-up: '
                                   f'{c._job!r} at {clock.ns}')
            if not gate.done():
                gate.set_result(None)
            await drain(loop)
            if sched.timer is not None:
                sched.timer.cancel()
            hs = sorted(map(json.dumps, handled))
            rs = sorted(map(json.dumps, raised))
            if hs != rs:
                bad.append(f'seed {seed} [{kind}]: exception handler received {len(hs)} exceptions {hs[:4]}..., '
                           f'{len(rs)} job coroutines raised {rs[:4]}...')
            # with a sequential manager the coroutine may be ENTERED late (queued behind a busy task); each reset from
            # inside the coroutine re-arms the countdown for exactly reset instant + 1.5 s
            if len(cd_runs) != 3 or (kind == 'parallel' and cd_runs[0] != expect_cd[0]) or cd_runs[0] < expect_cd[0]:
                bad.append(f'seed {seed} [{kind}]: countdown resetting itself from its coroutine ran at {cd_runs}')
            elif any(b - a != 1_500_000_000 for a, b in zip(cd_runs, cd_runs[1:])):
                bad.append(f'seed {seed} [{kind}]: self-resetting countdown intervals {cd_runs}')
        try:
            loop.run_until_complete(main())
        finally:
            asyncio.set_event_loop(None)
            set_exception_handler(default_exception_handler)
    return bad


def main() -> int:
    n = int(sys.argv[1]) if len(sys.argv) > 1 else 40
    seed0 = int(sys.argv[2]) if len(sys.argv) > 2 else 0
    out = []
    for i in range(n):
        out += scenario(seed0 * 1000 + i)
    json.dump(out[:20], sys.stdout)
    return 0


if __name__ == '__main__':
    sys.exit(main())
