"""asyncexec_impl.py — drive the REAL eascheduler.executor.base.AsyncExecutor on the REAL task managers on the
virtual loop, one loop handle at a time (C10, asynchronous path).  Same event vocabulary and case format as
harness/taskmgr_impl.py (whose loop / manager instrumentation is reused by subclassing), but

  * every submission is  AsyncExecutor(user_coro_func, (cid,), task_manager=<spy>).execute()  - the coroutine the
    manager gets is the executor's own `_execute()` wrapper; the spy is a pass-through that only notes which
    wrapper coroutine belongs to which cid (and supplies the key the de-duplicating manager wants, which
    `AsyncExecutor.execute` cannot pass);
  * the exception handler is registered with eascheduler.errors.handler.set_exception_handler and every call
    is logged;
  * the scripts say what the USER coroutine does; every resumption of a user body is logged with what woke it.

Extra observations per event: 'hlog' (cids whose exception reached the handler, call order), 'ulog'
(16*cid + 4*wake + next per resumption).  Extra per case, for the oracle only: 'left' (how every user body was
left: exc / canc / ret, with the event index), 'hcalls' (handler calls with event index and exception type),
'final' (state of every task before and after the shutdown of the case), 'exec_errors'.
"""
from __future__ import annotations

import asyncio
import inspect
import random
import warnings
from asyncio import events as aio_events

from eascheduler.errors.handler import default_exception_handler, set_exception_handler
from eascheduler.executor.base import AsyncExecutor

from harness.taskmgr_gen import next_event
from harness.taskmgr_impl import WAKE, Runtime, UserErr
from lib.vloop import virtual_time

NEXTC = {'park': 0, 'fin': 1, 'raise': 2, 'ret': 3}


class Spy:
    """what AsyncExecutor gets as task_manager: forwards to the real manager"""

    def __init__(self, rt: 'ExecRuntime', cid: int, key: int) -> None:
        self.rt, self.cid, self.key = rt, cid, key
        self.ret = None

    def create_task(self, coro, *, name=None):
        rt = self.rt
        rt.coros[self.cid] = coro
        rt.coro_cid[id(coro)] = self.cid
        if rt.kind == 'dedup':
            self.ret = rt.mgr.create_task(coro, self.key, name=name)
        else:
            self.ret = rt.mgr.create_task(coro, name=name)
        return self.ret


class ExecRuntime(Runtime):
    def __init__(self, case, loop) -> None:
        super().__init__(case, loop)
        self.hlog: list[int] = []
        self.hcalls: list = []        # [cid, event index, exception type]
        self.ulog: list[int] = []
        self.left: list = []          # [cid, 'exc'|'canc'|'ret', event index]
        self.exec_errors: list = []
        self.executors: dict[int, AsyncExecutor] = {}
        self.strong: dict[int, asyncio.Task] = {}
        set_exception_handler(self.on_exception)

    def on_exception(self, e) -> None:
        cid = e.args[0] if isinstance(e, UserErr) and e.args else 999
        self.hlog.append(cid)
        self.hcalls.append([cid, self.evi, type(e).__name__])

    # the USER coroutine function
    async def body(self, cid: int):
        self.entlog.append(cid)
        self.entered.add(cid)
        self.log.append(['enter', cid, self.evi])
        saved = None
        wake = 'res'
        while True:
            subs, nxt = self.take_beh()
            self.ulog.append(16 * cid + 4 * WAKE[wake] + NEXTC[nxt])
            for c, k in subs:
                self.submit(c, k, inside=cid)
            if nxt == 'park':
                fut = self.loop.create_future()
                self.futs[cid] = fut
                try:
                    await fut
                    saved, wake = None, 'res'
                except UserErr as e:
                    saved, wake = e, 'exc'
                except asyncio.CancelledError as e:
                    saved, wake = e, 'canc'
                continue
            self.exited.add(cid)
            self.log.append(['exit', cid, self.evi])
            if nxt == 'raise':
                self.left.append([cid, 'exc', self.evi])
                raise UserErr(cid)
            if nxt == 'ret' or saved is None:
                self.left.append([cid, 'ret', self.evi])
                return
            self.left.append([cid, 'exc' if isinstance(saved, UserErr) else 'canc', self.evi])
            raise saved

    def submit(self, cid: int, key: int, inside=None) -> None:
        if cid in self.keys:
            self.flag = True
            return
        self.keys[cid] = key
        self.order.append(cid)
        q0, _ = self.view_queue()
        t0 = self.view_tracked()
        r0 = self.view_running()
        n0 = len(self.started)
        spy = Spy(self, cid, key)
        ex = AsyncExecutor(self.body, (cid,), task_manager=spy)
        self.executors[cid] = ex
        try:
            ex.execute()
        except Exception as e:                      # noqa: BLE001
            self.exec_errors.append([cid, self.evi, repr(e)])
        if cid not in self.coros:                   # execute() never reached the manager
            async def _dummy():
                return None
            d = _dummy()
            d.close()
            self.coros[cid] = d
            self.exec_errors.append([cid, self.evi, 'execute() did not call create_task'])
        newly_closed = self._closed_now()
        self.closed += newly_closed
        t1 = self.view_tracked()
        victims = [c for c in t0 if c not in t1]
        self.mcanc += victims
        q1, qk1 = self.view_queue()
        self.subobs.append({
            'ev': self.evi, 'inside': inside, 'cid': cid, 'key': key, 'q0': q0, 'q1': q1, 'qk1': qk1,
            'run0': r0, 'run1': self.view_running(), 't0': t0, 't1': t1, 'closed': newly_closed,
            'victims': victims, 'victim_state': [self._cancel_state(v) for v in victims],
            'ret': self.cid_of_task(spy.ret), 'started': self.started[n0:],
        })

    def observe(self) -> dict:
        o = super().observe()
        o['hlog'] = list(self.hlog)
        o['ulog'] = list(self.ulog)
        return o

    def task_states(self) -> dict:
        out = {}
        for cid in self.order:
            if cid not in self.has_task:
                out[str(cid)] = 'no-task:' + inspect.getcoroutinestate(self.coros[cid])
                continue
            t = self.done_tasks.get(cid) or self.tasks.get(cid) or self.strong.get(cid)
            if t is None:
                out[str(cid)] = 'gone'
            elif not t.done():
                out[str(cid)] = 'pending'
            elif t.cancelled():
                out[str(cid)] = 'cancelled'
            elif t.exception() is not None:
                out[str(cid)] = 'exception:' + type(t.exception()).__name__
            else:
                out[str(cid)] = 'result'
        return out

    def _strong_factory(self, loop, coro, **kw):
        task = self._factory(loop, coro, **kw)
        self.strong[self.task_cid.get(task, 999)] = task
        return task

    def shutdown(self) -> None:
        # from here on the harness keeps every task alive itself (the weak references of the parent class are
        # there to catch a manager that does not; that is checked during the trace, not during the clean-up)
        self.strong.update(dict(self.tasks))
        self.loop.set_task_factory(self._strong_factory)
        try:
            super().shutdown()
        finally:
            set_exception_handler(default_exception_handler)


def run_case(case: dict) -> dict:
    """-> {'case', 'obs', 'sub', 'log', 'errors', 'left', 'hcalls', 'final', 'final_after_shutdown', 'exec_errors'}"""
    obs: list = []
    concrete: list = []
    with warnings.catch_warnings():
        warnings.simplefilter('ignore')
        with virtual_time(0) as (_clock, loop):
            asyncio.set_event_loop(loop)
            aio_events._set_running_loop(loop)
            rt = None
            try:
                rt = ExecRuntime(case, loop)
                if 'gen' in case:
                    g = case['gen']
                    rng = random.Random(g['seed'])
                    for i in range(g['n']):
                        rt.evi = i
                        rt.flag = False
                        cev = next_event(rng, g['profile'], rt.view(i / g['n']), rt.fresh)
                        rt.apply(cev)
                        concrete.append(cev)
                        obs.append(rt.observe())
                else:
                    for i, ev in enumerate(case['evs']):
                        rt.evi = i
                        rt.flag = False
                        rt.apply(ev)
                        concrete.append(list(ev))
                        obs.append(rt.observe())
                final_errors = list(rt.loop_errors)
                final = rt.task_states()
                n_h = len(rt.hcalls)
                rt.evi = len(concrete)
                rt.shutdown()
                after = rt.task_states()
            finally:
                set_exception_handler(default_exception_handler)
                aio_events._set_running_loop(None)
                asyncio.set_event_loop(None)
    ccase = {'mgr': case['mgr'], 'evs': concrete}
    ccase['profile'] = case['gen']['profile'] if 'gen' in case else case.get('profile', 'replay')
    return {'case': ccase, 'obs': obs, 'sub': rt.subobs, 'log': rt.log, 'errors': final_errors,
            'left': rt.left, 'hcalls': rt.hcalls, 'hcalls_before_shutdown': n_h, 'final': final,
            'final_after_shutdown': after, 'errors_after_shutdown': rt.loop_errors[len(final_errors):],
            'exec_errors': rt.exec_errors}
