"""getinstant_gen.py — (driver side) generate C19 cases for one zone: the current instant on the eve of / during
/ after the zone's clock changes and at ordinary instants; every argument type that once / countdown /
interval / offset / jitter accept (and some they do not), with the values that matter: times of day
that are skipped / repeated / equal to now, instants around the 100 ms tolerance, durations around 0.

An argument is {'spec': <getinstant_read.py description>, 'means': <what it denotes, for the oracle>}:
  ['now'] | ['dur', ns] | ['durf', float seconds] | ['tod', ns] | ['local', local_ns, fold] | ['instant', ns]
  | ['bad']
"""
from __future__ import annotations

import datetime as dt
import random
from zoneinfo import ZoneInfo

NS = 10**9
MIN = 60 * NS
HOUR = 3600 * NS
DAY = 86400 * NS
Y2001 = 978307200 * NS
Y2036 = 2082758400 * NS
Y2024 = 1704067200 * NS
Y2028 = 1830297600 * NS
EPOCH_UTC = dt.datetime(1970, 1, 1, tzinfo=dt.timezone.utc)
EPOCH_NAIVE = dt.datetime(1970, 1, 1)
TOL = 100_000_000

AWARE_ZONES = ['America/New_York', 'Asia/Kolkata', 'Australia/Lord_Howe', 'UTC', 'Europe/London', 'Pacific/Apia']
AWARE_WALLS = [('America/New_York', (2025, 11, 2, 1, 30, 0, 0)), ('America/New_York', (2025, 3, 9, 2, 30, 0, 0)),
               ('Europe/London', (2026, 10, 25, 1, 15, 0, 500000)), ('Europe/London', (2026, 3, 29, 1, 30, 0, 0)),
               ('Australia/Lord_Howe', (2025, 4, 6, 1, 45, 0, 0)), ('Australia/Lord_Howe', (2025, 10, 5, 2, 15, 0, 0))]
BAD_STRS = ['foo', '', '08:00', '0800', '24:00:00', '23:59:60', ' 08:00:00', '08:00:00Z', '08:00:00+01:00', 'T08:00:00',
            '8:00:00', '08:00:00,5', '2025-03-30T08:00:00', '2025-03-30', 'P1D', 'P1W', 'P0D', 'PT', 'P', 'pt5s', 'PT 5S',
            'PT-5S', 'PT1.5H', 'P1DT1H', '5', '5.0', 'now', 'None', '08:00:00.1234567891', 'PT5S ']
JUNK = ['list', 'complex', 'date', 'zoned', 'bytes', 'dict', 'object', 'tuple', 'offsetdt', 'localdt']


def fmt_tod(tod: int) -> str:
    s, n = divmod(tod, NS)
    base = f'{s // 3600:02d}:{(s // 60) % 60:02d}:{s % 60:02d}'
    if n:
        base += ('.' + f'{n:09d}').rstrip('0')
    return base


def fmt_iso_duration(ns: int, rng: random.Random) -> str:
    sign = ''
    if ns < 0:
        sign, ns = '-', -ns
    elif rng.random() < 0.15:
        sign = '+'
    s, n = divmod(ns, NS)
    h, m, sec = s // 3600, (s // 60) % 60, s % 60
    if rng.random() < 0.3:                      # all in one unit
        m, h = m + 60 * h, 0
        if rng.random() < 0.5:
            sec, m = sec + 60 * m, 0
    out = ''
    if h:
        out += f'{h}H'
    if m:
        out += f'{m}M'
    if sec or n or not out:
        out += str(sec) + (('.' + f'{n:09d}').rstrip('0') if n else '') + 'S'
    return sign + 'PT' + out


def fields_of_local(local_ns: int) -> list:
    d = EPOCH_NAIVE + dt.timedelta(microseconds=local_ns // 1000)
    return [d.year, d.month, d.day, d.hour, d.minute, d.second, d.microsecond]


class Gen:
    def __init__(self, rng: random.Random, zone: str, table: dict) -> None:
        self.rng = rng
        self.zone = zone
        self.init = table['init']
        self.all_trans = [(t, o) for t, o in table['trans']]
        tr = []
        cur = self.init
        for t, o in self.all_trans:
            if Y2001 + 3 * DAY <= t <= Y2036 - 3 * DAY:
                tr.append((t, cur, o))
            cur = o
        self.tr = tr
        self.tr_recent = [x for x in tr if Y2024 <= x[0] <= Y2028]
        # transitions at which the local DATE goes backwards (America/St_Johns until 2010)
        self.tr_backdate = [x for x in tr if (x[0] + x[2] * NS) // DAY < (x[0] - 1 + x[1] * NS) // DAY]

    # ---------------------------------------------------------------------------------------------
    def offset_at(self, i: int) -> int:
        cur = self.init
        for t, o in self.all_trans:
            if i < t:
                break
            cur = o
        return cur

    def local(self, i: int) -> int:
        return i + self.offset_at(i) * NS

    def pick_transition(self):
        r = self.rng.random()
        if self.tr_backdate and r < 0.12:
            return self.rng.choice(self.tr_backdate)
        if self.tr_recent and r < 0.6:
            return self.rng.choice(self.tr_recent)
        return self.rng.choice(self.tr) if self.tr else None

    def now(self):
        """-> (now, the transition it was placed at or None)"""
        rng = self.rng
        tr = self.pick_transition()
        if tr is not None and rng.random() < 0.7:
            t = tr[0]
            delta = rng.choice([-36 * HOUR, -25 * HOUR, -24 * HOUR, -13 * HOUR, -12 * HOUR - 1, -6 * HOUR, -HOUR,
                                -30 * MIN, -30 * NS, -NS, -1, 0, 1, NS, 10 * MIN, 30 * MIN, HOUR, 2 * HOUR, 5 * HOUR,
                                13 * HOUR, 23 * HOUR, 25 * HOUR, rng.randrange(-40 * HOUR, 40 * HOUR),
                                rng.randrange(-3 * HOUR, 3 * HOUR)])
            return t + delta, tr
        i = rng.randrange(Y2001, Y2036)
        if rng.random() < 0.5:
            i -= i % NS
        return i, None

    def tod(self, now: int, tr) -> int:
        rng = self.rng
        ln = self.local(now) % DAY
        r = rng.random()
        if tr is not None and r < 0.6:
            t, ob, oa = tr
            lo, hi = sorted((t + ob * NS, t + oa * NS))
            x = rng.choice([lo, (lo + hi) // 2, hi - 1, hi, lo - 1, rng.randrange(lo, hi), rng.randrange(lo, hi),
                            lo + MIN, hi - MIN, hi + MIN, lo - MIN])
            return x % DAY
        if r < 0.8:
            return (ln + rng.choice([0, 0, 1, -1, NS, -NS, 1000, -1000, HOUR, -HOUR, 12 * HOUR, MIN, -MIN])) % DAY
        x = rng.randrange(0, DAY)
        return x - x % rng.choice([1, 1000, NS, MIN])

    # ---------------------------------------------------------------------------------------------
    def a_time(self, tod: int) -> dict:
        rng = self.rng
        k = rng.choice(['str', 'str', 'time', 'pytime', 'mystr', 'mypytime'])
        if k in ('pytime', 'mypytime'):
            tod -= tod % 1000
            s = tod // NS
            return {'spec': [k, s // 3600, (s // 60) % 60, s % 60, (tod % NS) // 1000, rng.choice([0, 0, 1])],
                    'means': ['tod', tod]}
        if k == 'time':
            return {'spec': ['time', tod], 'means': ['tod', tod]}
        return {'spec': [k, fmt_tod(tod)], 'means': ['tod', tod]}

    def a_duration(self, ns: int | None = None) -> dict:
        """an exact duration in one of its spellings"""
        rng = self.rng
        if ns is None:
            ns = rng.choice([0, 1, -1, NS, -NS, 5 * NS, 90 * MIN, -90 * MIN, DAY, 36 * HOUR, 1_953_125, 500_000_000,
                             -TOL, -TOL - 1, -TOL + 1, -2 * TOL, rng.randrange(-10**13, 10**14),
                             rng.randrange(-10**10, 10**10), rng.randrange(1, 10**6), 7 * DAY + 1])
        k = rng.choice(['td', 'str', 'pytd', 'int', 'mystr', 'mytd', 'myint', 'float'])
        if k in ('int', 'myint') and ns % NS == 0:
            return {'spec': [k, ns // NS], 'means': ['dur', ns]}
        if k in ('pytd', 'mytd') and ns % 1000 == 0:
            us = ns // 1000
            days, rem = divmod(us, 86400 * 10**6)
            return {'spec': [k, days, rem // 10**6, rem % 10**6], 'means': ['dur', ns]}
        if k == 'float' and ns % 1_953_125 == 0 and abs(ns) < 10**15:
            return {'spec': ['float', ns / NS], 'means': ['dur', ns]}          # exact binary fraction
        if k in ('str', 'mystr'):
            return {'spec': [k, fmt_iso_duration(ns, rng)], 'means': ['dur', ns]}
        return {'spec': ['td', ns], 'means': ['dur', ns]}

    def a_number(self) -> dict:
        rng = self.rng
        r = rng.random()
        if r < 0.3:
            n = rng.choice([-100, -1, 0, 1, 5, 60, 3600, 86400, 10**6, rng.randrange(-10**5, 10**5)])
            return {'spec': [rng.choice(['int', 'int', 'myint']), n], 'means': ['dur', n * NS]}
        if r < 0.4:
            b = rng.random() < 0.5
            return {'spec': ['bool', b], 'means': ['dur', NS if b else 0]}
        if r < 0.47:
            return {'spec': ['floatspecial', rng.choice(['nan', 'inf', '-inf'])], 'means': ['bad']}
        if r < 0.52:
            return {'spec': ['float', rng.choice([1e30, -1e30, 1e18])], 'means': ['bad']}
        f = rng.choice([0.0, -0.0, 0.5, 0.1, -0.1, -0.100000001, -0.0999, -0.05, 1e-10, -1e-10, 1e-9, 2.5, 0.7,
                        100000.25, rng.randrange(-5000, 50000) / 512, round(rng.uniform(-100, 1000), 3),
                        rng.uniform(-1, 1), rng.uniform(0, 1e-8)])
        return {'spec': ['float', f], 'means': ['durf', f]}

    def a_naive(self, now: int, tr) -> dict:
        rng = self.rng
        r = rng.random()
        if tr is not None and r < 0.45:
            t, ob, oa = tr
            lo, hi = sorted((t + ob * NS, t + oa * NS))
            loc = rng.choice([lo, (lo + hi) // 2, hi - 1000, hi, lo - 1000, rng.randrange(lo, hi), lo + MIN, hi + MIN])
        elif r < 0.8:
            loc = self.local(now) + rng.choice([-2 * TOL, -TOL - 1000, -TOL, -TOL + 1000, -TOL // 2, 0, 1000, NS,
                                                HOUR, DAY, -DAY, 30 * DAY])
        else:
            loc = rng.randrange(Y2001, Y2036)
        loc -= loc % 1000
        fold = rng.choice([0, 0, 1])
        return {'spec': [rng.choice(['naive', 'naive', 'mynaive']), *fields_of_local(loc), fold],
                'means': ['local', loc, fold]}

    def a_aware(self, now: int) -> dict:
        rng = self.rng
        r = rng.random()
        if r < 0.25:
            zone, wall = rng.choice(AWARE_WALLS)
            fold = rng.choice([0, 1])
            d = dt.datetime(*wall, fold=fold, tzinfo=ZoneInfo(zone))
            spec = [rng.choice(['aware', 'myaware']), zone, *wall, fold]
        elif r < 0.75:
            zone = rng.choice(AWARE_ZONES + [self.zone])
            i = now + rng.choice([-2 * TOL, -TOL - 1000, -TOL, -TOL + 1000, 0, 1000, NS, HOUR, DAY, -DAY,
                                  rng.randrange(-10**13, 10**15)])
            i -= i % 1000
            d = (EPOCH_UTC + dt.timedelta(microseconds=i // 1000)).astimezone(ZoneInfo(zone))
            spec = ['aware', zone, d.year, d.month, d.day, d.hour, d.minute, d.second, d.microsecond, d.fold]
        else:
            off = rng.choice([0, 3600, -12600, 19800, 3601, -43200, 50400])
            loc = rng.randrange(Y2001, Y2036)
            loc -= loc % 1000
            f = fields_of_local(loc)
            d = dt.datetime(*f, tzinfo=dt.timezone(dt.timedelta(seconds=off)))
            spec = ['aware_fixed', off, *f]
        delta = d - EPOCH_UTC
        return {'spec': spec, 'means': ['instant', ((delta.days * 86400 + delta.seconds) * 10**6 + delta.microseconds) * 1000]}

    def a_absolute(self, now: int) -> dict:
        rng = self.rng
        i = now + rng.choice([-2 * TOL, -TOL - 1, -TOL, -TOL + 1, -1, 0, 1, NS, HOUR, DAY, -DAY,
                              rng.randrange(-10**13, 10**15)])
        return {'spec': [rng.choice(['instant', 'sysdt']), i], 'means': ['instant', i]}

    def a_bad(self) -> dict:
        rng = self.rng
        if rng.random() < 0.6:
            return {'spec': [rng.choice(['str', 'str', 'mystr']), rng.choice(BAD_STRS)], 'means': ['bad']}
        if rng.random() < 0.15:
            return {'spec': ['pytime_tz', 8, 0, 0], 'means': ['bad']}
        return {'spec': ['junk', rng.choice(JUNK)], 'means': ['bad']}

    # ---------------------------------------------------------------------------------------------
    def instant_arg(self, now: int, tr) -> dict:
        r = self.rng.random()
        if r < 0.36:
            return self.a_time(self.tod(now, tr))
        if r < 0.40:
            return {'spec': ['none'], 'means': ['now']}
        if r < 0.52:
            return self.a_duration()
        if r < 0.60:
            return self.a_number()
        if r < 0.74:
            return self.a_naive(now, tr)
        if r < 0.84:
            return self.a_aware(now)
        if r < 0.92:
            return self.a_absolute(now)
        return self.a_bad()

    def duration_arg(self) -> dict:
        """an argument of countdown / interval length / offset / jitter: durations, and what is none"""
        r = self.rng.random()
        if r < 0.55:
            return self.a_duration()
        if r < 0.8:
            return self.a_number()
        if r < 0.86:
            return self.a_time(self.rng.randrange(0, DAY // NS) * NS)       # a time of day is not a duration
        if r < 0.90:
            return {'spec': ['none'], 'means': ['bad']}
        if r < 0.93:
            a = self.a_absolute(Y2024)
            return {'spec': a['spec'], 'means': ['bad']}
        return self.a_bad()

    def case(self) -> dict:
        rng = self.rng
        now, tr = self.now()
        r = rng.random()
        if r < 0.58:
            return {'call': 'instant', 'now': now, 'arg': self.instant_arg(now, tr)}
        if r < 0.70:
            return {'call': 'countdown', 'now': now, 'arg': self.duration_arg()}
        if r < 0.86:
            start = self.instant_arg(now, tr)
            return {'call': 'interval', 'now': now, 'start': start, 'iv': self.duration_arg()}
        if r < 0.92:
            return {'call': 'offset', 'now': now, 'arg': self.duration_arg()}
        lo = self.duration_arg()
        hi = None
        if rng.random() < 0.7:
            hi = self.duration_arg()
            if rng.random() < 0.5 and lo['means'][0] == 'dur':
                hi = self.a_duration(lo['means'][1] + rng.choice([0, 1, -1, NS, 5 * NS, -NS]))
        return {'call': 'jitter', 'now': now, 'lo': lo, 'hi': hi}


def pinned(zone: str) -> list:
    """fixed witnesses, present in every run (only for the zone they are about)"""
    out = []
    if zone == 'Europe/Berlin':
        eve = 1743246000 * NS                 # 2025-03-29 12:00 local
        out += [
            {'call': 'instant', 'now': eve, 'arg': {'spec': ['str', '08:00:00'], 'means': ['tod', 8 * HOUR]}},
            {'call': 'instant', 'now': eve, 'arg': {'spec': ['str', '12:00:00'], 'means': ['tod', 12 * HOUR]}},
            {'call': 'instant', 'now': eve, 'arg': {'spec': ['str', '02:30:00'], 'means': ['tod', 2 * HOUR + 30 * MIN]}},
            {'call': 'instant', 'now': 1743292800 * NS + 4 * HOUR,          # 2025-03-30 06:00 local, after the gap
             'arg': {'spec': ['time', 2 * HOUR + 30 * MIN], 'means': ['tod', 2 * HOUR + 30 * MIN]}},
            {'call': 'instant', 'now': 1761439500 * NS,                      # 2025-10-26 02:45 CEST, between the repetitions
             'arg': {'spec': ['str', '02:50:00'], 'means': ['tod', 2 * HOUR + 50 * MIN]}},
            {'call': 'instant', 'now': eve, 'arg': {'spec': ['naive', 2025, 3, 30, 2, 30, 0, 0, 0],
                                                    'means': ['local', 20177 * DAY + 2 * HOUR + 30 * MIN, 0]}},
            {'call': 'instant', 'now': eve, 'arg': {'spec': ['naive', 2025, 10, 26, 2, 30, 0, 0, 1],
                                                    'means': ['local', 20387 * DAY + 2 * HOUR + 30 * MIN, 1]}},
            {'call': 'instant', 'now': eve, 'arg': {'spec': ['float', -0.1], 'means': ['durf', -0.1]}},
            {'call': 'instant', 'now': eve, 'arg': {'spec': ['float', -0.100000001], 'means': ['durf', -0.100000001]}},
            {'call': 'instant', 'now': eve, 'arg': {'spec': ['bool', True], 'means': ['dur', NS]}},
        ]
    if zone == 'America/St_Johns':
        # 2006-10-29 00:01 NDT -> 2006-10-28 23:01 NST: at 00:00:30, '23:30:00' (see GetInstantFacts.least_needs_dates_forward)
        t = 1162089060 * NS
        out += [{'call': 'instant', 'now': t - 30 * NS,
                 'arg': {'spec': ['str', '23:30:00'], 'means': ['tod', 23 * HOUR + 30 * MIN]}}]
    return out
