"""sun_impl.py — run sun-trigger cases (C18) on the real producers with the real astral (subprocess side).

case (input):
  {'zone': str,                                   # TZ of the subprocess (informational here)
   'locs':  [[lat, lon, elev], ...],              # location table, id = index
   'prods': [{'ev': SPEC, 'filter': F|None}, ...],
   'steps': [['loc', id] | ['noloc'] | ['q', p, dt_ns] | ['chain', p, dt0_ns, n] | ['snap']]}
  SPEC: ['dawn'] | ['sunrise'] | ['noon'] | ['sunset'] | ['dusk'] | ['elevation', deg, 'rising'|'setting']
        | ['azimuth', deg]
  F:    filter syntax of prod_impl.py
adds:
   'keys':   [SPEC...]            distinct specs; the cache-key id of a producer is the index of its spec
   'pkeys':  [key id per producer]
   'trace':  [['loc', id|None] | ['q', p, dt, RESULT, chain_no|None, idx_in_chain] | ['snap', [[key, day, loc]...]]]
   'oracle': [[loc, key, day, ns|None]...]   astral's answers to the producers' own calls, in first-asked order
   'extra':  [[loc, key, day, ns|None]...]   the same function asked by the harness for the days around every
                                             query (used by the Python oracles only, not given to the model)
   'sanity': [[loc, key, v_ns, elev_before, elev_at, elev_after]...]   astral.sun.elevation around the answers
   'nondet': [...]                           a (loc, key, day) for which astral gave two different answers
"""
from __future__ import annotations

import datetime as dtm

from astral import Observer
from astral import sun as asun

import eascheduler
from eascheduler.producers import prod_sun
from eascheduler.producers.prod_sun import (
    DawnProducer, DuskProducer, NoonProducer, SunAzimuthProducerCompare, SunElevationProducerCompare,
    SunriseProducer, SunsetProducer,
)
from harness.prod_impl import build_filter, query

NS = 10**9
DAY = 86400 * NS
EPOCH = dtm.datetime(1970, 1, 1, tzinfo=dtm.timezone.utc)
DATE0 = dtm.date(1970, 1, 1)
US = dtm.timedelta(microseconds=1)


def to_ns(d: dtm.datetime) -> int:
    return ((d - EPOCH) // US) * 1000


def build(spec):
    k = spec[0]
    if k == 'dawn':
        return DawnProducer()
    if k == 'sunrise':
        return SunriseProducer()
    if k == 'noon':
        return NoonProducer()
    if k == 'sunset':
        return SunsetProducer()
    if k == 'dusk':
        return DuskProducer()
    if k == 'elevation':
        return SunElevationProducerCompare(spec[1], spec[2])
    if k == 'azimuth':
        return SunAzimuthProducerCompare(spec[1])
    raise ValueError(k)


def cache_key_of(spec):
    """what SunProducer._cache_key() returns for the spec (to translate SUN_CACHE keys back)"""
    return build(spec)._cache_key()


class Recorder:
    def __init__(self, locs) -> None:
        self.locs = [tuple(l) if not isinstance(l[2], list) else (l[0], l[1], tuple(l[2])) for l in locs]
        self.asked: dict = {}
        self.order: list = []
        self.nondet: list = []

    def loc_id(self, observer: Observer) -> int:
        t = (observer.latitude, observer.longitude, observer.elevation)
        return self.locs.index(t)

    def add(self, loc: int, key: int, day: int, val) -> None:
        k = (loc, key, day)
        if k in self.asked:
            if self.asked[k] != val:
                self.nondet.append([loc, key, day, self.asked[k], val])
            return
        self.asked[k] = val
        self.order.append([loc, key, day, val])


def wrap(p, key: int, rec: Recorder):
    orig = p.func

    def func(observer, date):
        loc = rec.loc_id(observer)
        day = (date - DATE0).days
        try:
            r = orig(observer, date)
        except ValueError:
            rec.add(loc, key, day, None)
            raise
        rec.add(loc, key, day, to_ns(r))
        return r

    p.func = func
    return orig


def snapshot(rec: Recorder, ckeys: list) -> list:
    """SUN_CACHE keys, oldest first, as [key id, UTC day, location id]; a part that cannot be translated back (a key
    of another shape than the one the model has) becomes 999 so that the comparison fails instead of the harness"""
    out = []
    for k in prod_sun.SUN_CACHE:
        try:
            day = (k[0].py_date() - DATE0).days
        except Exception:  # noqa: BLE001
            day = -999
        try:
            loc = rec.locs.index((k[1], k[2], k[3]))
            tail = tuple(k[4:])
        except Exception:  # noqa: BLE001
            loc, tail = 999, None
        key = ckeys.index(tail) if tail in ckeys else 999
        out.append([key, day, loc])
    return out


def run_case(case: dict) -> dict:
    prod_sun.SUN_CACHE.clear()
    prod_sun.OBSERVER = None
    rec = Recorder(case['locs'])
    keys: list = []
    pkeys: list = []
    prods = []
    origs = {}
    for pd in case['prods']:
        spec = pd['ev']
        if spec not in keys:
            keys.append(spec)
        key = keys.index(spec)
        pkeys.append(key)
        p = build(spec)
        p._filter = build_filter(pd.get('filter'))
        origs[key] = wrap(p, key, rec)
        prods.append(p)
    ckeys = [tuple(cache_key_of(s)) for s in keys]

    trace: list = []
    cur = None
    chain_no = 0
    touched: list = []           # (loc, key, dt, v|None) for the window completion

    def ask(p: int, dt: int, cn, idx):
        r = query(prods[p], dt, 5)
        trace.append(['q', p, dt, r, cn, idx])
        if cur is not None:
            touched.append((cur, pkeys[p], dt, r[1] if r[0] == 'ok' else None))
        return r

    for st in case['steps']:
        k = st[0]
        if k == 'loc':
            lat, lon, elev = case['locs'][st[1]]
            eascheduler.set_location(lat, lon, tuple(elev) if isinstance(elev, list) else elev)
            cur = st[1]
            trace.append(['loc', cur])
        elif k == 'noloc':
            prod_sun.OBSERVER = None
            cur = None
            trace.append(['loc', None])
        elif k == 'q':
            ask(st[1], st[2], None, 0)
        elif k == 'chain':
            dt = st[2]
            for i in range(st[3]):
                r = ask(st[1], dt, chain_no, i)
                if r[0] != 'ok':
                    break
                dt = r[1]
            chain_no += 1
        elif k == 'snap':
            trace.append(['snap', snapshot(rec, ckeys)])
        else:
            raise ValueError(k)

    oracle = list(rec.order)
    n_own = len(oracle)
    # window completion: the days around every query, asked of the same functions (not through the producers)
    observers = {}
    for loc, key, dt, v in touched:
        lo = dt // DAY - 2
        hi = max(dt, v if v is not None else dt) // DAY + 2
        if hi - lo > 420:
            hi = lo + 420
        if loc not in observers:
            lat, lon, elev = case['locs'][loc]
            observers[loc] = Observer(lat, lon, tuple(elev) if isinstance(elev, list) else elev)
        for day in range(lo, hi + 1):
            if (loc, key, day) in rec.asked:
                continue
            date = DATE0 + dtm.timedelta(days=day)
            try:
                r = to_ns(origs[key](observers[loc], date))
            except ValueError:
                r = None
            rec.add(loc, key, day, r)
    extra = rec.order[n_own:]

    # astronomical sanity samples (a plain test of astral against itself, see harness/sun.py)
    sanity = []
    seen = set()
    for loc, key, dt, v in touched:
        if v is None or (loc, key, v) in seen or keys[key][0] == 'azimuth':
            continue
        seen.add((loc, key, v))
        t = EPOCH + dtm.timedelta(microseconds=v // 1000)
        try:
            els = [asun.elevation(observers[loc], t + dtm.timedelta(seconds=s)) for s in (-60, 0, 60)]
        except Exception:  # noqa: BLE001
            els = [None, None, None]
        sanity.append([loc, key, v, *els])

    out = dict(case)
    out.update({'keys': keys, 'pkeys': pkeys, 'trace': trace, 'oracle': oracle[:n_own], 'extra': extra,
                'sanity': sanity, 'nondet': rec.nondet})
    prod_sun.SUN_CACHE.clear()
    prod_sun.OBSERVER = None
    return out

