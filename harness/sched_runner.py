"""sched_runner.py — subprocess entry: run histories against the implementation, dump observations."""
import json
import resource
import sys

from harness.sched_impl import run_history


def main() -> int:
    resource.setrlimit(resource.RLIMIT_AS, (6 << 30, 6 << 30))
    sys.setrecursionlimit(400)
    inp, outp, nofail = sys.argv[1], sys.argv[2], sys.argv[3] == '1'
    cases = json.load(open(inp))
    out = []
    for c in cases:
        if nofail:
            c = dict(c)
            c['fexec'] = []
            c['fcb'] = []
        ccase, obs, raised = run_history(c)
        out.append([ccase, obs, raised])
    json.dump(out, open(outp, 'w'))
    return 0


if __name__ == '__main__':
    sys.exit(main())
