"""sched_runner.py — subprocess entry: run histories against the implementation, dump observations."""
import json
import sys

from harness.sched_impl import run_history


def main() -> int:
    inp, outp, nofail = sys.argv[1], sys.argv[2], sys.argv[3] == '1'
    cases = json.load(open(inp))
    out = []
    for c in cases:
        if nofail:
            c = dict(c)
            c['fexec'] = []
            c['fcb'] = []
        ccase, obs, raised = run_history(c)
        out.append([ccase, obs, raised])
    json.dump(out, open(outp, 'w'))
    return 0


if __name__ == '__main__':
    sys.exit(main())
