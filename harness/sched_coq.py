"""sched_coq.py — print concrete histories and implementation observations as Coq terms (SchedCases.case)."""
from __future__ import annotations

STATUS = {'created': 'Created', 'running': 'Running', 'paused': 'Paused', 'finished': 'Finished', 'unknown': 'Created'}


def z(v: int) -> str:
    return f'({v})' if v < 0 else str(v)


def optz(v) -> str:
    return 'None' if v is None else f'(Some {z(v)})'


def nat(v: int) -> str:
    return f'{v}%nat'


def natlist(l) -> str:
    return '[' + '; '.join(nat(x) for x in l) + ']'


def zlist(l) -> str:
    return '[' + '; '.join(z(x) for x in l) + ']'


def coq_op(op) -> str:
    k = op[0]
    if k == 'once':
        return f'OOnce {z(op[1])} {z(op[2])}'
    if k == 'countdown':
        return f'OCountdown {z(op[1])} {z(op[2])}'
    if k == 'at':
        return f'OAt {z(op[1])}'
    if k == 'cancel':
        return f'OCancel {nat(op[1])}'
    if k == 'pause':
        return f'OPause {nat(op[1])}'
    if k == 'resume':
        return f'OResume {nat(op[1])}'
    if k == 'reset':
        return f'OReset {nat(op[1])}'
    if k == 'setcd':
        return f'OSetCountdown {nat(op[1])} {z(op[2])}'
    if k == 'enable':
        return f'OEnable {"true" if op[1] else "false"}'
    if k in ('reg', 'unreg'):
        w = 'CbUpd' if op[2] == 'u' else 'CbFin'
        return f'{"ORegister" if k == "reg" else "OUnregister"} {nat(op[1])} {w} {nat(op[3])}'
    if k == 'adv':
        return f'OAdvance {z(op[1])}'
    if k == 'wake':
        return 'OWake'
    if k == 'early':
        return 'OEarlyWake'
    raise ValueError(k)


def coq_event(e) -> str:
    k = e[0]
    if k == 'exec':
        return f'EExec {nat(e[1])} {z(e[2])} {z(e[3])} {nat(e[4])}'
    if k == 'cbu':
        return f'ECbUpd {nat(e[1])} {nat(e[2])} {STATUS[e[3]]} {optz(e[4])}'
    if k == 'cbf':
        return f'ECbFin {nat(e[1])} {nat(e[2])}'
    if k == 'prod':
        return f'EProd {nat(e[1])}'
    if k == 'handler':
        p = e[1]
        if p[0] == 'exec':
            return f'EHandler (HExec {nat(p[1])})'
        if p[0] == 'cb':
            return f'EHandler (HCb {nat(p[1])})'
        if p[0] == 'prod':
            return f'EHandler (HJob {nat(p[1])})'
        return 'EHandler HLoop'
    raise ValueError(k)


def coq_outcome(o: str) -> str:
    if o == 'Runaway':
        return 'NoFuel'
    return 'Done' if o == 'Done' else f'(Raised {o})'


def coq_obs(o) -> str:
    jobs = '[' + '; '.join(f'({STATUS[s]}, {optz(n)})' for s, n in o['jobs']) + ']'
    evs = '[' + '; '.join(coq_event(e) for e in o['evs']) + ']'
    return (f'{{| o_out := {coq_outcome(o["out"])}; o_en := {"true" if o["enabled"] else "false"}; '
            f'o_timer := {optz(o["timer"])}; o_queue := {natlist(o["queue"])}; o_jobs := {jobs}; '
            f'o_store := {zlist(o["store"])}; o_evs := {evs} |}}')


def coq_case(ccase, obs) -> str:
    prods = []
    idx = 0
    # job indices follow the model's allocation rule: every creation that did not end in KeyError/ValueError
    for op, o in zip(ccase['ops'], obs):
        if op[0] in ('once', 'countdown', 'at'):
            if o['out'] in ('EKeyError', 'EValueError'):
                continue
            if op[0] == 'at':
                prods.append(f'({nat(idx)}, {{| ps_start := {z(op[2])}; ps_iv := {z(op[3])}; ps_fail := {natlist(sorted(op[4]))} |}})')
            idx += 1
    pl = lambda l: '[' + '; '.join(f'({nat(a)}, {nat(b)})' for a, b in l) + ']'
    return ('{| c_t0 := %s; c_en := %s; c_store := %s;\n   c_prods := [%s];\n   c_fexec := %s; c_fcb := %s;\n'
            '   c_ops := [%s];\n   c_obs := [%s] |}' % (
                z(ccase['t0']), 'true' if ccase['enabled'] else 'false', 'true' if ccase['store'] else 'false',
                '; '.join(prods), pl(ccase.get('fexec', [])), pl(ccase.get('fcb', [])),
                ';\n     '.join(coq_op(op) for op in ccase['ops']),
                ';\n     '.join(coq_obs(o) for o in obs)))


def cases_file(cases: list[tuple[dict, list]]) -> str:
    body = ';\n'.join(coq_case(c, o) for c, o in cases)
    return ('From EAS Require Import Base Sched SchedCases.\n'
            'Definition cases : list case := [\n' + body + '\n].\n'
            'Eval vm_compute in (mismatches cases).\n'
            'Eval vm_compute in (bad_indices (fun c => forallb obs_wellformed (c_obs c)) cases).\n')


def debug_file(case_term: str, k: int) -> str:
    return ('From EAS Require Import Base Sched SchedCases.\n'
            f'Definition c : case := {case_term}.\n'
            f'Eval vm_compute in (nth_error (case_model_obs c) {k}%nat).\n'
            f'Eval vm_compute in (nth_error (c_obs c) {k}%nat).\n')
