"""compose.py — C03: a recurring job realises its trigger's occurrence sequence end to end.  The REAL scheduler runs
REAL triggers under virtual time across days, month ends and DST changes; every execution instant and every
announced next run is compared with the producer model (evaluated in Coq) and with the zoneinfo reference."""
from __future__ import annotations

import collections
import json
import random
import re
import subprocess
from concurrent.futures import ThreadPoolExecutor
from pathlib import Path

from harness import prod_coq
from harness.prod import FUEL, ZONES_MORE, ZONES_QUICK, _tables
from harness.prod_gen import DAY, HOUR, MIN, NS, Ctx, sanitize
from harness.prod_oracle import Ref, interval_anchors, is_base
from lib import coqrun

VERIF = Path(__file__).resolve().parent.parent
COQ_TARGETS = ['theories/ProdCases.vo']
PER_ZONE = {'quick': 40, 'thorough': 300}
ASSUMPTIONS = {'C03': [
    'the loop keeps up: every wake-up happens at the announced instant or less than one period after it',
    'loop clock and wall clock are one variable; user callables do not call the scheduler re-entrantly',
    'time-zone tables extracted from whenever itself under TZ=<zone> on every run',
]}


def gen_case(ctx: Ctx, rng: random.Random) -> dict:
    p = rng.random()
    if ctx.affected and p < 0.6:
        t, lo, hi, _ = rng.choice(ctx.affected)
        t0 = t - rng.choice([3 * DAY, 2 * DAY + 5 * HOUR, 6 * DAY])
        tod = rng.choice([lo, (lo + hi) // 2, hi, 12 * HOUR, 0, hi - 1, lo + MIN]) % DAY
    else:
        t0 = ctx.instant()
        tod = ctx.tod()
    kind = rng.choice(['time', 'time', 'interval', 'group', 'filtered', 'op', 'finterval'])
    if kind == 'finterval':
        # a filtered interval whose start lies less than one interval after the creation (or long before it)
        iv = rng.choice([6 * HOUR, DAY, 90 * MIN])
        e = ['interval', t0 + rng.choice([17 * MIN, iv // 2, iv - MIN, -5 * DAY]), iv, ctx.filt(0, True, True)]
    elif kind == 'time':
        e = ['time', tod, rng.choice(['skip', 'earlier', 'later', 'after']), rng.choice(['skip', 'earlier', 'later', 'twice']), None]
    elif kind == 'interval':
        e = ['interval', t0 - rng.choice([0, 17 * MIN, 5 * DAY]), rng.choice([6 * HOUR, DAY, 90 * MIN, 25 * HOUR]), None]
    elif kind == 'group':
        e = ['group', [['time', tod, 'later', 'twice', None], ['time', (tod + 7 * HOUR) % DAY, 'skip', 'earlier', None],
                       ['interval', t0, 36 * HOUR, None]], None]
    elif kind == 'filtered':
        e = ['time', tod, rng.choice(['earlier', 'later', 'after']), rng.choice(['earlier', 'later', 'twice']),
             ctx.filt(0, True, True)]          # a single date filter: always satisfiable
    else:
        e = sanitize(ctx.op_expr(['time', tod, 'later', 'earlier', None], 0.0), rng)
        if e[0] == 'jitter' and e[2] < 0:
            e[2] = 0
        if e[0] == 'jitter':
            e[3] = max(e[3], 60 * NS)
    # asyncio timers are float seconds: keep every instant of these long runs on whole milliseconds
    MS = 10**6

    def ms(e):
        if e[0] in ('time',):
            e[1] -= e[1] % MS
        elif e[0] == 'interval':
            e[1] -= e[1] % MS
            e[2] -= e[2] % MS
        elif e[0] == 'group':
            for m in e[1]:
                ms(m)
        else:
            ms(e[1])
            for i in (2, 3):
                if isinstance(e[i], int):
                    e[i] -= e[i] % MS
    ms(e)
    t0 -= t0 % MS
    n = rng.choice([8, 10, 14])
    late = [rng.choice([0, 0, 0, 0, MS, NS, 15 * MIN]) for _ in range(n)]
    c = {'expr': e, 't0': t0, 'late': late, 'disturb': rng.random() < 0.5, 'pre': rng.random() < 0.6,
         'fracs': [rng.random() for _ in range(4)]}
    if rng.random() < 0.4:
        c['other_first'] = rng.choice([400 * DAY, 30 * DAY, 3 * DAY + 5 * HOUR])
    return c


def _impl_zone(zone: str, cases: list, scratch: Path) -> list:
    tag = zone.replace('/', '_')
    inp, outp = scratch / f'cin_{tag}.json', scratch / f'cout_{tag}.json'
    inp.write_text(json.dumps(cases))
    env = {'PYTHONPATH': f'{coqrun.REPO}/src:{VERIF}', 'PYTHONHASHSEED': '0', 'PATH': '/usr/bin:/bin', 'TZ': zone}
    r = subprocess.run(['/venv/bin/python', '-u', '-m', 'harness.compose_runner', str(inp), str(outp)], cwd=VERIF, env=env,
                       capture_output=True, text=True, timeout=1800)
    if r.returncode != 0:
        raise RuntimeError(f'compose runner failed in {zone}: ' + r.stderr[-3000:])
    return json.loads(outp.read_text())


def oracle(zone: str, ref: Ref, c: dict) -> tuple[list, bool]:
    bad = []
    o = c['out']
    if o['error']:
        return [f'the run raised {o["error"]}'], True
    e = c['expr']
    prev_ref = c['t0']
    announced = o['first']
    anchors = interval_anchors(e, [[c['t0'], None]])
    decided = False
    can_ref = is_base(e)
    for k, st in enumerate(o['steps']):
        if st['announced'] != announced:
            bad.append(f'step {k}: the job reports next run {st["announced"]}, expected {announced}')
        if can_ref:
            want = ref.next_ref(e, prev_ref, anchors)
            if want != 'unknown':
                decided = True
                if want != st['announced']:
                    bad.append(f'step {k}: announced next run {st["announced"]} but the trigger\'s next occurrence after '
                               f'{prev_ref} is {want}')
        if st['announced'] <= prev_ref:
            bad.append(f'step {k}: announced next run {st["announced"]} is not after {prev_ref}')
        if st.get('pre'):
            bad.append(f'step {k}: the job was started {st["pre"]} time(s) in a wake-up before its next run')
        ex = st['execs']
        if len(ex) != 1:
            bad.append(f'step {k}: {len(ex)} executions in the wake-up at {st["wake_at"]} (announced {st["announced"]})')
        else:
            at, ann = ex[0]
            if at < st['announced'] or at != st['wake_at']:
                bad.append(f'step {k}: executed at {at}, announced {st["announced"]}, wake-up at {st["wake_at"]}')
            if ann != st['announced']:
                bad.append(f'step {k}: executed for {ann}, announced {st["announced"]}')
        if st['status'] != 'running':
            bad.append(f'step {k}: job status {st["status"]} after an execution')
        prev_ref = st['wake_at']
        announced = st['next_after']
        if bad:
            break
    return bad, decided


def to_pcase(c: dict) -> dict:
    o = c['out']
    qs = [[c['t0'], ['ok', o['first']]]]
    for st in o['steps']:
        if st['next_after'] is not None:
            qs.append([st['wake_at'], ['ok', st['next_after']]])
    return {'expr': c['expr'], 'results': qs, 'draws': o['draws']}


def run(prop: str, tier: str, seed: int, scratch: Path, replay=None, model_ok=True) -> dict:
    rng = random.Random(f'{prop}-{seed}')
    zones = list(ZONES_QUICK) if tier == 'quick' else ZONES_QUICK + ZONES_MORE
    per_zone = {}
    if replay:
        payload = json.loads(Path(replay).read_text())
        zones = [payload['case']['zone']]
        per_zone[zones[0]] = [payload['case']]
    tables = _tables(zones)
    if not replay:
        for z in zones:
            ctx = Ctx(rng, tables[z])
            per_zone[z] = [dict(gen_case(ctx, rng), zone=z) for _ in range(PER_ZONE[tier])]
    with ThreadPoolExecutor(max_workers=coqrun.JOBS) as ex:
        outs = list(ex.map(lambda z: (z, _impl_zone(z, per_zone[z], scratch)), zones))
    spec, corr = [], []
    kinds = collections.Counter()
    nontriv = 0
    total_execs = 0
    files, index = [], {}
    seen = set()
    for z, results in outs:
        ref = Ref(z)
        keep = []
        for c in results:
            kinds[c['expr'][0]] += 1
            bad, decided = oracle(z, ref, c)
            total_execs += sum(len(s['execs']) for s in c['out']['steps'])
            h = hash(json.dumps([z, c['expr'], c['t0']], sort_keys=True))
            if h not in seen and len(c['out']['steps']) >= 5:
                nontriv += 1
            seen.add(h)
            for msg in bad[:1]:
                spec.append({'what': msg, 'case': {k: v for k, v in c.items() if k != 'out'}, 'observed': c['out']['steps'][:6], 'zone': z})
            if not c['out']['error'] and len(c['out']['draws']) < 400:
                keep.append(to_pcase(c))
        p = scratch / f'cc_{z.replace("/", "_")}.v'
        p.write_text(prod_coq.cases_file(keep, tables[z], FUEL))
        files.append(p)
        index[p.name] = (z, keep)
    if model_ok:
        for p, rc, out in coqrun.eval_cases(files):
            z, cs = index[p.name]
            if rc != 0:
                corr.append({'file': p.name, 'zone': z, 'error': out[-1500:]})
                continue
            flat = ' '.join(out.split())
            m1 = re.search(r'= (\[.*?\]) : list \(nat \* nat\)', flat)
            if not m1:
                corr.append({'file': p.name, 'zone': z, 'error': 'cannot parse: ' + flat[-400:]})
                continue
            for ci, k in coqrun.parse_pairs(m1.group(1)):
                corr.append({'zone': z, 'case': cs[ci], 'query_index': k,
                             'what': 'announced next run differs from the producer model for the execution instant'})
    else:
        corr.append({'error': 'model does not build'})
    total = sum(len(r) for _, r in outs)
    samples = [{'zone': z, 'expr': r[0]['expr'], 't0': r[0]['t0'], 'first_steps': r[0]['out']['steps'][:3]} for z, r in outs[:2] if r]
    return {
        'evaluations': total, 'distinct_nontrivial': nontriv,
        'rule': 'one case = one recurring job followed for 8-14 occurrences under virtual time (with other jobs created, '
                'cancelled and stopped in between in half of the cases); non-trivial iff at least 5 occurrences were realised',
        'samples': samples, 'corr_failures': corr, 'spec_violations': spec,
        'distribution': {'trigger_kinds': dict(kinds), 'zones': zones, 'executions_observed': total_execs},
        'extra': {'traces_validated_against_impl': total},
    }


def search(prop: str, seed: int, scratch: Path) -> list:
    rng = random.Random(f'search-{prop}-{seed}')
    zones = ZONES_QUICK + ZONES_MORE[:6]
    tables = _tables(zones)
    per_zone = {z: [dict(gen_case(Ctx(rng, tables[z]), rng), zone=z) for _ in range(60)] for z in zones}
    with ThreadPoolExecutor(max_workers=coqrun.JOBS) as ex:
        outs = list(ex.map(lambda z: (z, _impl_zone(z, per_zone[z], scratch)), zones))
    found = []
    for z, results in outs:
        ref = Ref(z)
        for c in results:
            bad, _ = oracle(z, ref, c)
            for msg in bad[:1]:
                found.append({'what': msg, 'case': {k: v for k, v in c.items() if k != 'out'}, 'observed': c['out']['steps'][:6], 'zone': z})
    return found
