"""prod.py — checks of the trigger group (C04 C05 C06 C13 C14 ...): generate producer expressions and
reference instants per time zone, query the real producers (TZ=<zone> subprocesses), evaluate the Coq model
on the same queries inside Coq with the zone's extracted table, apply the reference oracles."""
from __future__ import annotations

import collections
import json
import random
import re
import subprocess
from concurrent.futures import ThreadPoolExecutor
from pathlib import Path

from harness import prod_coq
from harness.prod_gen import DAY, HOUR, MIN, NS, Ctx, fracs, sanitize
from harness.prod_oracle import Ref, interval_anchors, is_base
from lib import coqrun

VERIF = Path(__file__).resolve().parent.parent
CORPUS = VERIF / 'corpus'
COQ_TARGETS = ['theories/ProdCases.vo']
FUEL = 400000

ZONES_QUICK = ['Europe/Berlin', 'America/Nuuk', 'Australia/Lord_Howe', 'America/Havana', 'Africa/Casablanca',
               'UTC', 'America/St_Johns', 'Pacific/Auckland']
ZONES_MORE = ['Asia/Tehran', 'America/Sao_Paulo', 'Antarctica/Troll', 'Asia/Kolkata', 'America/New_York',
              'Europe/London', 'Asia/Gaza', 'America/Santiago', 'Australia/Adelaide', 'Pacific/Chatham',
              'America/Scoresbysund', 'Africa/Cairo', 'Asia/Amman', 'America/Asuncion', 'Europe/Lisbon',
              'Atlantic/Azores', 'Pacific/Fiji', 'America/Caracas', 'Asia/Kathmandu', 'Pacific/Norfolk',
              'America/Chicago', 'Asia/Dhaka', 'Europe/Moscow', 'Asia/Pyongyang']
PER_ZONE = {'quick': 90, 'thorough': 300}
PER_ZONE_C16 = {'quick': 3, 'thorough': 12}

ASSUMPTIONS = {p: [
    'the time-zone table (2000-2037) of each zone is extracted from whenever itself under TZ=<zone> on every run',
    'random.uniform is replaced by a scripted source; its recorded answers are the model\'s draw oracle '
    '(window bounds compared with a 1 microsecond tolerance: the implementation shifts windows in float seconds)',
    'interval filter search: model fuel 400000 rounds; implementation budget 1 s per query',
] for p in ('C04', 'C05', 'C06', 'C13', 'C14', 'C16')}
RULES = {
    'C04': 'case = expression + query sequence; non-trivial iff the expression has at least one operation or filter '
           'and at least one answer; distinct by hash of (zone, expression, queries)',
    'C05': 'non-trivial iff a filter is attached somewhere and the reference oracle could decide the answer',
    'C06': 'non-trivial iff the chain crosses a day on which the wall-clock time is skipped or repeated',
    'C13': 'non-trivial iff the operation changed the underlying occurrence in at least one answer',
    'C14': 'non-trivial iff the chain has at least 10 firings',
    'C16': 'every case is non-trivial: a filter that never accepts (or a very sparse one) on a time / group / operation / interval trigger',
}


# --------------------------------------------------------------------------------------------------
def gen_case(prop: str, ctx: Ctx, rng: random.Random) -> dict:
    ref = ctx.instant()
    if prop == 'C04' and rng.random() < 0.3:
        c = gen_case('C06', ctx, rng)
        if rng.random() < 0.5:
            c = {'expr': c['expr'], 'probe': [c['chain'][0], c['chain'][0] + rng.choice([HOUR, 90 * MIN, 2 * HOUR, 30 * MIN])], 'fracs': []}
        return c
    if prop == 'C04':
        e = ctx.expr(rng.choice([0, 1, 1, 2, 3]), ref)
        mode = rng.random()
        if mode < 0.4:
            return {'expr': e, 'probe': [ref, ctx.instant()], 'fracs': fracs(rng)}
        if mode < 0.7:
            return {'expr': e, 'chain': [ref, 6], 'fracs': fracs(rng)}
        return {'expr': e, 'queries': [ref, ref - 1, ref + 1, ctx.instant(), ref], 'fracs': fracs(rng)}
    if prop == 'C05' and rng.random() < 0.2:
        c = gen_case('C06', ctx, rng)
        if rng.random() < 0.5:
            c['expr'][4] = ctx.filt(1, True, True)
        return c
    if prop == 'C05' and rng.random() < 0.006:
        # a group one of whose members can never fire (a date that does not exist), next to a live member
        dead = ['time', ctx.tod(), 'later', 'earlier', rng.choice([['all', [['month', [2]], ['day', [30, 31]]]], ['day', []]])]
        live = rng.choice([['interval', ref - 5 * DAY, HOUR, None], ['time', 12 * HOUR, 'later', 'earlier', None]])
        members = [dead, live] if rng.random() < 0.5 else [live, dead]
        return {'expr': ['group', members, None], 'queries': [ref], 'fracs': [], 'budget': 6, 'starving_member': True}
    if prop == 'C05' and rng.random() < 0.04:
        # a satisfiable but very sparse date filter: 29 February (up to 8 years ahead), Friday the 13th (up to 427 days)
        f = rng.choice([['all', [['month', [2]], ['day', [29]]]], ['all', [['weekday', [5]], ['day', [13]]]],
                        ['all', [['month', [2]], ['day', [29]], ['weekday', [rng.randrange(1, 8)]]]]][:2])
        e = ['time', ctx.tod(), rng.choice(['skip', 'earlier', 'later', 'after']), rng.choice(['skip', 'earlier', 'later', 'twice']), f]
        return {'expr': e, 'chain': [ref, 3], 'fracs': []}
    if prop == 'C05':
        e = sanitize(ctx.base_expr(0.7, ref), rng)
        if rng.random() < 0.5:
            return {'expr': e, 'probe': [ref, ctx.instant()], 'fracs': []}
        return {'expr': e, 'chain': [ref, 5], 'fracs': []}
    if prop == 'C06':
        e = ['time', ctx.tod(), rng.choice(['skip', 'earlier', 'later', 'after']),
             rng.choice(['skip', 'earlier', 'later', 'twice']), None]
        if ctx.affected and rng.random() < 0.85:
            t, lo, hi, _ = rng.choice(ctx.affected)
            ref = t - rng.choice([2 * DAY, DAY + HOUR, 3 * HOUR, 36 * HOUR, 0, 1, MIN, -MIN, -10 * MIN, -29 * MIN, -31 * MIN,
                                  -HOUR, -90 * MIN, 30 * MIN, -2 * HOUR])
            if rng.random() < 0.7:
                e[1] = rng.choice([lo, (lo + hi) // 2, hi - 1, hi, lo - 1, lo + MIN, hi - MIN, lo + 30 * NS + 5]) % DAY
        return {'expr': e, 'chain': [ref, 6], 'fracs': []}
    if prop == 'C13' and ctx.affected and rng.random() < 0.25:
        # a bound inside a skipped / repeated wall-clock interval, a time-of-day base trigger inside the same interval,
        # every policy pair, reference instants before, between and after the two passes
        t, lo, hi, _fw = rng.choice(ctx.affected)
        span = max(MIN, hi - lo)
        pick = lambda: (lo + rng.randrange(0, max(1, span // MIN)) * MIN + rng.choice([0, 0, 30 * NS])) % DAY   # noqa: E731
        base = ['time', pick(), rng.choice(['skip', 'earlier', 'later', 'after']),
                rng.choice(['skip', 'earlier', 'later', 'twice']), None]
        e = [rng.choice(['earliest', 'latest']), base, pick(), rng.choice(['skip', 'earlier', 'later', 'after']),
             rng.choice(['earlier', 'later', 'twice', 'twice', 'skip']), None]
        qs = [t + d for d in (-DAY - HOUR, -3 * HOUR, -2 * HOUR, -90 * MIN, -61 * MIN, -45 * MIN, -30 * MIN, -10 * MIN, -1, 0,
                              10 * MIN, 20 * MIN, 40 * MIN, 59 * MIN, 61 * MIN, 2 * HOUR)]
        return {'expr': e, 'queries': qs, 'fracs': fracs(rng)}
    if prop == 'C13':
        e = ctx.op_expr(ctx.base_expr(0.2, ref), 0.15)
        if rng.random() < 0.3:
            e = ctx.op_expr(e, 0.1)
        e = sanitize(e, rng)
        if rng.random() < 0.5:
            return {'expr': e, 'probe': [ref, ctx.instant()], 'fracs': fracs(rng)}
        return {'expr': e, 'queries': [ref, ctx.instant(), ref + 1, ref - HOUR], 'fracs': fracs(rng)}
    if prop == 'C14':
        base = ctx.base_expr(0.1, ref)
        if rng.random() < 0.5:
            off = rng.choice([NS, -NS, 30 * NS, -30 * NS, 10 * MIN, -10 * MIN, -HOUR, HOUR, 500_000_000])
            e = ['offset', base, off, None]
        else:
            lo, hi = rng.choice([(0, 60 * NS), (-60 * NS, 60 * NS), (-10 * MIN, -MIN), (10 * NS, 20 * NS),
                                 (-5 * NS, 0), (0, NS), (-20 * MIN, 20 * MIN)])
            e = ['jitter', base, lo, hi, None]
        if rng.random() < 0.12:
            # an offset over a jitter: the firing window is the jitter window shifted by the offset
            lo, hi = rng.choice([(0, 60 * NS), (10 * NS, 20 * NS), (0, 10 * MIN)])
            e = ['offset', ['jitter', base, lo, hi, None], rng.choice([-30 * NS, 30 * NS, -5 * NS, -5 * MIN, HOUR]), None]
        e = sanitize(e, rng)
        return {'expr': e, 'chain': [ref, 25], 'fracs': [rng.random() for _ in range(16)] + [0.0, 1.0]}
    if prop == 'C16':
        unsat = ctx.unsat_filter()
        kind = rng.choice(['time', 'time', 'group', 'op', 'interval', 'sparse', 'tiny', 'dstskip', 'dstskip'])
        if kind == 'dstskip' and ctx.affected:
            # an unfiltered time of day inside a skipped / repeated hour, every policy, asked around the change: a handful
            # of days are looked at, never the whole horizon
            t, lo, hi, _fw = rng.choice(ctx.affected)
            e = ['time', (lo + rng.randrange(0, max(1, (hi - lo) // MIN)) * MIN) % DAY, rng.choice(['skip', 'earlier', 'later', 'after']),
                 rng.choice(['skip', 'earlier', 'later', 'twice']), None]
            return {'expr': e, 'queries': [t - DAY - HOUR, t - 3 * HOUR, t - 1, t, t + 2 * HOUR, t + DAY], 'fracs': [0.5], 'budget': 6}
        if kind == 'tiny':
            # a legal interval far below a microsecond, starting right at the reference: a handful of steps
            # (oracle only: float seconds of a few hundred nanoseconds are not compared with the model)
            e = ['interval', ref + rng.choice([0, 1000, 2500]), rng.choice([400, 250, 900, 1]), None]
            return {'expr': e, 'queries': [ref, ref + 1, ref + 1700], 'fracs': [0.5], 'budget': 3, 'nocoq': True}
        if kind == 'time':
            e = ['time', ctx.tod(), rng.choice(['skip', 'earlier', 'later', 'after']), rng.choice(['skip', 'earlier', 'later', 'twice']), unsat]
        elif kind == 'group':
            e = ['group', [['time', 12 * HOUR, 'skip', 'skip', None], ['interval', ref, 6 * HOUR, None]], unsat]
        elif kind == 'op':
            e = [rng.choice(['offset', 'jitter']), ['time', 6 * HOUR, 'skip', 'skip', None]] + \
                ([-HOUR] if rng.random() < 0.5 else [0, 60 * NS])
            if len(e) == 3:
                e = ['offset', e[1], e[2], unsat]
            else:
                e = ['jitter', e[1], e[2], e[3], unsat]
        elif kind == 'interval':
            e = ['interval', ref, rng.choice([HOUR, 15 * MIN, DAY]), unsat]
            return {'expr': e, 'queries': [ref + 1], 'fracs': [0.5], 'budget': 3, 'fuel': 3000, 'unsat_interval': True}
        else:
            # satisfiable but sparse: terminates after many steps
            e = ['interval', ref, rng.choice([NS, 7 * NS]), ['weekday', [rng.randrange(1, 8)]]]
            return {'expr': e, 'queries': [ref + 1], 'fracs': [0.5], 'budget': 25, 'fuel': 700000, 'nocoq': True}
        return {'expr': e, 'queries': [ref], 'fracs': [0.5], 'budget': 25, 'nocoq': rng.random() < 0.75}
    raise ValueError(prop)


def _tables(zones: list[str]) -> dict:
    env = {'PYTHONPATH': f'{coqrun.REPO}/src', 'PATH': '/usr/bin:/bin'}
    r = subprocess.run(['/venv/bin/python', str(VERIF / 'tools' / 'gen_zones.py'), *zones], env=env,
                       capture_output=True, text=True, timeout=600)
    if r.returncode != 0:
        raise RuntimeError('gen_zones failed: ' + r.stderr[-2000:])
    return json.loads(r.stdout)


def _impl_zone(zone: str, cases: list, scratch: Path) -> list:
    tag = zone.replace('/', '_')
    inp, outp = scratch / f'in_{tag}.json', scratch / f'out_{tag}.json'
    inp.write_text(json.dumps(cases))
    env = {'PYTHONPATH': f'{coqrun.REPO}/src:{VERIF}', 'PYTHONHASHSEED': '0', 'PATH': '/usr/bin:/bin', 'TZ': zone}
    r = subprocess.run(['/venv/bin/python', '-u', '-m', 'harness.prod_runner', str(inp), str(outp)], cwd=VERIF, env=env,
                       capture_output=True, text=True, timeout=1800)
    if r.returncode != 0:
        raise RuntimeError(f'producer runner failed in {zone}: ' + r.stderr[-3000:])
    return json.loads(outp.read_text())


def has_op_or_filter(e) -> bool:
    if e[0] in ('offset', 'earliest', 'latest', 'jitter'):
        return True
    if e[-1] is not None:
        return True
    if e[0] == 'group':
        return any(has_op_or_filter(m) for m in e[1])
    return False


def has_filter(e) -> bool:
    if e[-1] is not None:
        return True
    if e[0] == 'group':
        return any(has_filter(m) for m in e[1])
    if e[0] in ('offset', 'earliest', 'latest', 'jitter'):
        return has_filter(e[1])
    return False


# --------------------------------------------------------------------------------------------------
def oracle(prop: str, zone: str, ref: Ref, c: dict) -> tuple[list, bool]:
    """-> (violations, decided?)"""
    bad = []
    decided = False
    e = c['expr']
    res = c['results']
    oks = [(dt, r[1]) for dt, r in res if r[0] == 'ok']
    for dt, v in oks:
        if v <= dt:
            bad.append(f'get_next({dt}) answered {v}, which is not after the reference instant')
    if prop == 'C04':
        return bad, bool(oks)
    if prop == 'C16':
        for dt, r in res:
            if r == ['raise', 'EInfiniteLoop'] and e[0] == 'time' and e[4] is None:
                want = ref.next_ref(e, dt, {})
                if isinstance(want, int):
                    bad.append(f'get_next({dt}) searched its whole horizon and gave up with InfiniteLoopDetectedError although '
                               f'the occurrence {want} exists')
            if r[0] == 'raise' and r[1] not in ('EInfiniteLoop', 'ELocationNotSet'):
                bad.append(f'get_next({dt}) ended with {r[1]}: neither an instant nor InfiniteLoopDetectedError '
                           '(nor a missing location / holiday setup)')
            if r[0] == 'budget':
                what = 'get_next did not end within its time budget'
                if c.get('unsat_interval'):
                    what += ' (interval trigger with a filter that never accepts)'
                bad.append(what)
        return bad, True
    if prop in ('C05', 'C06') and is_base(e):
        anchors = interval_anchors(e, res)
        if e[0] == 'time':
            # the walk of a time trigger covers 99 999 local days: giving up while an admissible occurrence lies within
            # the reference's own horizon (800 days) is a missed run
            for dt, r in res:
                if r[0] == 'raise':
                    want = ref.next_ref(e, dt, anchors)
                    if isinstance(want, int):
                        how = 'gave up with InfiniteLoopDetectedError' if r[1] == 'EInfiniteLoop' else f'ended with {r[1]}'
                        bad.append(f'get_next({dt}) {how} although the admissible occurrence {want} exists')
                        decided = True
        if e[0] == 'group' and e[2] is None:
            # the union of the members' admissible occurrences: a member that never fires must not silence the others
            for dt, r in res:
                if r == ['raise', 'EInfiniteLoop']:
                    alive = []
                    for n, m in enumerate(e[1]):
                        if m[0] in ('time', 'interval'):
                            v = ref.next_ref(m, dt, anchors, (n,))
                            if isinstance(v, int):
                                alive.append((v, n))
                    if alive:
                        v, n = min(alive)
                        bad.append(f'get_next({dt}) gave up with InfiniteLoopDetectedError although member {n} has the '
                                   f'admissible occurrence {v} (another member never fires)')
                        decided = True
        for dt, v in oks:
            want = ref.next_ref(e, dt, anchors)
            if want == 'unknown':
                continue
            decided = True
            if want != v:
                bad.append(f'get_next({dt}) answered {v}; the earliest admissible occurrence is {want}')
        return bad, decided
    if prop == 'C13':
        k = e[0]
        inner = e[1]
        if not is_base(inner):
            return bad, False
        anchors = interval_anchors(inner, res)
        for dt, v in oks:
            # follow the inner chain from dt the way the operation loop does, with reference occurrences
            x = dt
            want = None
            for _ in range(400):
                b = ref.next_ref(inner, x, anchors)
                if b == 'unknown':
                    want = 'unknown'
                    break
                if k == 'offset':
                    val = b + e[2]
                elif k in ('earliest', 'latest'):
                    bi = ref.bound_instant(ref.local(b) // DAY, e[2], e[3], e[4], dt)
                    if bi == 'unknown':
                        want = 'unknown'
                        break
                    val = b if bi is None else (max(b, bi) if k == 'earliest' else min(b, bi))
                else:
                    want = 'jitter'
                    break
                if val > dt and ref.allow(e[-1], val):
                    want = val
                    break
                x = b
            if want in (None, 'unknown'):
                continue
            if want == 'jitter':
                # window check: some underlying occurrence b with b+lo <= v <= b+hi whenever the window is after dt
                lo, hi = e[2], e[3]
                if e[-1] is not None:
                    continue
                b = ref.next_ref(inner, dt, anchors)
                if b == 'unknown':
                    continue
                decided = True
                if lo >= 0 or dt < b + lo:
                    if not (b + lo - 1000 <= v <= b + hi + 1000):
                        bad.append(f'jitter({lo},{hi}) answered {v} for get_next({dt}); the occurrence {b} allows '
                                   f'[{b + lo}, {b + hi}]')
                continue
            decided = True
            if want != v:
                bad.append(f'{k} answered {v} for get_next({dt}); by the property it is {want}')
        return bad, decided
    if prop == 'C14':
        k = e[0]
        inner = e[1]
        if k == 'offset' and inner[0] == 'jitter' and is_base(inner[1]):
            # offset(jitter(base, lo, hi), off): a jitter window [lo + off, hi + off] around the occurrences of base
            e = ['jitter', inner[1], inner[2] + e[2], inner[3] + e[2], None]
            k, inner = 'jitter', e[1]
        firings = [v for _, v in oks]
        if len(firings) < 2 or not is_base(inner):
            return bad, False
        if k == 'offset':
            bases = [v - e[2] for v in firings]
            decided = True
            for a, b in zip(bases, bases[1:]):
                if b <= a:
                    bad.append(f'offset chain fired twice for the underlying occurrence {a} (firings {firings[:6]}...)')
                    break
        else:
            lo, hi = e[2], e[3]
            anchors = interval_anchors(inner, res)
            # underlying occurrences over the span of the chain
            occ = []
            x = res[0][0] - max(0, hi) - abs(lo) - 1
            for _ in range(len(firings) * 3 + 10):
                b = ref.next_ref(inner, x, anchors)
                if b == 'unknown' or b > firings[-1] + abs(lo) + abs(hi) + DAY:
                    break
                occ.append(b)
                x = b
            if len(occ) < 2:
                return bad, False
            # the property speaks about jitter ranges narrower than the base period
            if min(b - a for a, b in zip(occ, occ[1:])) <= 2 * (abs(lo) + abs(hi)) + 200_000:
                return bad, False
            decided = True
            used = collections.Counter()
            for v in firings:
                # attribute the firing to the nearest underlying occurrence
                b = min(occ, key=lambda o: abs(v - (o + (lo + hi) // 2)))
                used[b] += 1
            for b, n in used.items():
                if n > 1:
                    bad.append(f'jitter({lo},{hi}) chain: {n} firings attributed to the underlying occurrence {b}')
                    break
        return bad, decided
    return bad, decided


def nontrivial(prop: str, c: dict, decided: bool, ref: Ref) -> bool:
    oks = [r for _, r in c['results'] if r[0] == 'ok']
    if prop == 'C04':
        return has_op_or_filter(c['expr']) and bool(oks)
    if prop == 'C05':
        return has_filter(c['expr']) and decided
    if prop == 'C06':
        e = c['expr']
        for _, r in c['results']:
            if r[0] == 'ok':
                day = ref.local(r[1]) // DAY
                for d in (day - 1, day, day + 1):
                    if ref.wall_to_instants(d, e[1])[0] != 'unique':
                        return True
        return False
    if prop == 'C13':
        return decided
    if prop == 'C14':
        return len(oks) >= 10
    return True


AZ_BUDGET = 30
AZ_FIXED = [(52.5, 13.4, 0.0), (52.5, 13.4, 180.0), (-33.9, 151.2, 270.0), (69.6, 18.9, 90.0)]


def _az_run(case: dict) -> dict:
    env = {'PYTHONPATH': f'{coqrun.REPO}/src:{VERIF}', 'PYTHONHASHSEED': '0', 'PATH': '/usr/bin:/bin', 'TZ': 'UTC'}
    try:
        extra = [case['direction']] if case.get('kind') == 'elevation' else []
        r = subprocess.run(['/venv/bin/python', '-m', 'harness.prod_az', str(case['lat']), str(case['lon']), str(case['az']),
                            str(case['dt']), str(AZ_BUDGET)] + extra, cwd=VERIF, env=env, capture_output=True, text=True,
                           timeout=AZ_BUDGET + 30)
        res, secs = json.loads(r.stdout)
    except Exception as e:  # noqa: BLE001
        res, secs = ['raise', 'harness: ' + type(e).__name__], None
    return dict(case, result=res, seconds=secs)


def az_probe(rng: random.Random, n: int, replay_case=None) -> list:
    """C16 for the azimuth trigger (its search is a hack around astral, not part of the producer model): every
    get_next must end within the budget with an instant, InfiniteLoopDetectedError or LocationNotSetError"""
    if replay_case is not None:
        cases = [replay_case]
    else:
        cases = [{'kind': 'azimuth', 'lat': a, 'lon': b, 'az': c, 'dt': 1750474800 * NS} for a, b, c in AZ_FIXED]
        # elevation targets, reachable and never reached at the location (astral's ValueError after the 367-date search)
        for a, b, c, d in ((52.5, 13.4, 62.0, 'rising'), (-33.9, 151.2, 85.0, 'setting'), (52.5, 13.4, 30.0, 'setting'),
                           (78.2, 15.6, 40.0, 'rising')):
            cases.append({'kind': 'elevation', 'lat': a, 'lon': b, 'az': c, 'direction': d, 'dt': 1750474800 * NS})
        for _ in range(n):
            cases.append({'kind': 'azimuth', 'lat': round(rng.uniform(-70, 70), 1), 'lon': round(rng.uniform(-180, 180), 1),
                          'az': rng.choice([0.0, 45.0, 90.0, 135.0, 180.0, 225.0, 270.0, 315.0, 359.99, round(rng.uniform(0, 360), 2)]),
                          'dt': rng.randrange(1735689600, 1767225600) * NS})
    with ThreadPoolExecutor(max_workers=coqrun.JOBS) as ex:
        outs = list(ex.map(_az_run, cases))
    bad = []
    for c in outs:
        r = c['result']
        if r[0] == 'budget':
            bad.append({'what': f'{c["kind"]} trigger {c["az"]} at ({c["lat"]}, {c["lon"]}): get_next did not end within {AZ_BUDGET} s',
                        'case': c, 'observed': r})
        elif r[0] == 'raise' and r[1] not in ('InfiniteLoopDetectedError', 'LocationNotSetError'):
            bad.append({'what': f'{c["kind"]} trigger {c["az"]} at ({c["lat"]}, {c["lon"]}): get_next ended with {r[1]} after '
                                f'{c["seconds"]} s: neither an instant nor InfiniteLoopDetectedError', 'case': c, 'observed': r})
    return outs, bad


# --------------------------------------------------------------------------------------------------
def run(prop: str, tier: str, seed: int, scratch: Path, replay=None, model_ok=True) -> dict:
    import time as _t
    _t0 = _t.time()
    timing = {}
    rng = random.Random(f'{prop}-{seed}')
    zones = list(ZONES_QUICK) if tier == 'quick' else ZONES_QUICK + ZONES_MORE
    if prop == 'C16' and tier == 'quick':
        zones = zones[:5]
    if prop == 'C16':
        zones = zones + ['Pacific/Apia']          # skipped 2011-12-30 altogether: a gap of 24 hours
    per_zone: dict[str, list] = {}
    if replay:
        payload = json.loads(Path(replay).read_text())
        if payload['case'].get('kind') in ('azimuth', 'elevation'):
            outs_az, bad_az = az_probe(rng, 0, {k: payload['case'][k] for k in ('kind', 'lat', 'lon', 'az', 'dt', 'direction')
                                                if k in payload['case']})
            return {'evaluations': 1, 'distinct_nontrivial': 1, 'rule': 'azimuth replay', 'samples': outs_az,
                    'distribution': {}, 'corr_failures': [], 'spec_violations': bad_az, 'extra': {'replay': 'azimuth'}}
        zones = [payload['case']['zone']]
        per_zone[zones[0]] = [payload['case']]
    tables = _tables(zones)
    if not replay:
        for z in zones:
            ctx = Ctx(rng, tables[z])
            cases = []
            d = CORPUS / prop
            if d.is_dir():
                for p in sorted(d.glob('*.json')):
                    cc = json.loads(p.read_text())['case']
                    if cc.get('zone') == z:
                        cases.append(cc)
            cases += [gen_case(prop, ctx, rng) for _ in range(PER_ZONE[tier] if prop != 'C16' else PER_ZONE_C16[tier])]
            for c in cases:
                c['zone'] = z
            per_zone[z] = cases
    with ThreadPoolExecutor(max_workers=coqrun.JOBS) as ex:
        outs = list(ex.map(lambda z: (z, _impl_zone(z, per_zone[z], scratch)), zones))

    spec_violations, corr_failures = [], []
    dist = collections.Counter()
    answers = collections.Counter()
    seen = set()
    timing['implementation_s'] = round(_t.time() - _t0, 1)
    nontriv = 0
    skipped_budget = 0
    skipped_heavy = 0
    il_in_coq = 0
    files = []
    index = {}
    for z, results in outs:
        ref = Ref(z)
        keep = []
        for c in results:
            kinds = re.findall(r'"(time|interval|group|offset|earliest|latest|jitter)"', json.dumps(c['expr']))
            for k in kinds:
                dist[k] += 1
            for _, r in c['results']:
                answers[r[0] if r[0] != 'raise' else r[1]] += 1
            if prop != 'C16' and (any(r[0] == 'budget' for _, r in c['results']) or len(c['draws']) > 400):
                skipped_budget += 1
                continue
            bad, decided = oracle(prop, z, ref, c)
            heavy = c.get('slow') or any(r == ['raise', 'EInfiniteLoop'] for _, r in c['results'])
            # answers beyond the end of the model's time-zone tables (2041) are judged by the oracle only
            heavy = heavy or any(r[0] == 'ok' and r[1] >= 2208988800 * NS for _, r in c['results'])
            if prop == 'C16':
                heavy = bool(c.get('nocoq')) or len(c['draws']) > 400
                costly = any(r == ['raise', 'EInfiniteLoop'] for _, r in c['results']) or c.get('slow') or \
                    (c['expr'][0] == 'interval' and c['expr'][2] <= 60 * NS and c['expr'][3] is not None)
                if not heavy and costly:
                    # 99 999 rounds of the model (or a second-by-second search over days) take the VM half a minute: only a few of these per run go through Coq
                    # (the others are still judged by the oracle; ProdTerm / ProdComplete prove the bound)
                    il_in_coq += 1
                    heavy = il_in_coq > (0 if tier == 'quick' else 10)
            h = hash(json.dumps([z, c['expr'], c['results']], sort_keys=True))
            if h not in seen and nontrivial(prop, c, decided, ref):
                nontriv += 1
            seen.add(h)
            for msg in bad[:1]:
                spec_violations.append({'what': msg, 'case': c, 'observed': c['results'][:8], 'zone': z})
            if heavy:
                skipped_heavy += 1
            else:
                keep.append(c)
        shard = 45
        for s in range(0, len(keep), shard):
            p = scratch / f'pc_{z.replace("/", "_")}_{s // shard}.v'
            p.write_text(prod_coq.cases_file(keep[s:s + shard], tables[z], FUEL))
            files.append(p)
            index[p.name] = (z, keep[s:s + shard])

    timing['oracle_s'] = round(_t.time() - _t0, 1)
    wf = {}
    if model_ok:
        for p, rc, out in coqrun.eval_cases(files):
            z, cs = index[p.name]
            if rc != 0:
                corr_failures.append({'file': p.name, 'zone': z, 'error': out[-1500:]})
                continue
            flat = ' '.join(out.split())
            m1 = re.search(r'= (\[.*?\]) : list \(nat \* nat\)', flat)
            m2 = re.search(r'= (\[[^\]]*\]) : list nat', flat)
            m3 = re.search(r'= (true|false) : bool', flat)
            if not (m1 and m2 and m3):
                corr_failures.append({'file': p.name, 'zone': z, 'error': 'cannot parse: ' + flat[-400:]})
                continue
            wf[z] = m3.group(1) == 'true'
            for ci, k in coqrun.parse_pairs(m1.group(1)):
                c = cs[ci]
                dout = ''
                if len(corr_failures) < 2:
                    dbg = scratch / f'dbg_{len(corr_failures)}.v'
                    dbg.write_text(prod_coq.debug_file(c, tables[z], FUEL))
                    _, dout = coqrun.coqc_file(dbg)
                corr_failures.append({'zone': z, 'case': c, 'query_index': k, 'implementation': c['results'][k],
                                      'model_answers_coq': ' '.join(dout.split())[-1500:]})
            for ci in coqrun.parse_nats(m2.group(1)):
                spec_violations.append({'what': 'an answer is not after its reference instant (checked in Coq)',
                                        'case': cs[ci], 'zone': z})
    else:
        corr_failures.append({'error': 'model does not build'})

    timing['coq_s'] = round(_t.time() - _t0, 1)
    az_info = None
    if prop == 'C16' and not replay:
        outs_az, bad_az = az_probe(rng, 4 if tier == 'quick' else 40)
        spec_violations += bad_az
        az_info = {'cases': len(outs_az), 'outcomes': dict(collections.Counter(
            (o['result'][0] if o['result'][0] != 'raise' else o['result'][1]) for o in outs_az)),
            'slowest_s': max((o['seconds'] or 0) for o in outs_az), 'budget_s': AZ_BUDGET}
    total = sum(len(r) for _, r in outs) + (az_info['cases'] if az_info else 0)
    samples = []
    for z, results in outs[:2]:
        for c in results[:1]:
            samples.append({'zone': z, 'expr': c['expr'], 'answers': c['results'][:4]})
    return {
        'evaluations': total, 'distinct_nontrivial': nontriv, 'rule': RULES[prop], 'samples': samples,
        'corr_failures': corr_failures, 'spec_violations': spec_violations,
        'distribution': {'producer_kinds': dict(dist), 'answers': dict(answers), 'zones': zones,
                         'cases_per_zone': PER_ZONE[tier]},
        'extra': {'zones_wf_tz': wf, 'skipped_budget_or_many_draws': skipped_budget, 'not_evaluated_in_coq_too_much_work': skipped_heavy,
                  'jitter_window_tolerance_ns': 1000, 'azimuth_trigger_probe': az_info,
                  'timing_cumulative': dict(timing, total_s=round(_t.time() - _t0, 1))},
    }


def search(prop: str, seed: int, scratch: Path) -> list:
    rng = random.Random(f'search-{prop}-{seed}')
    zones = ZONES_QUICK + ZONES_MORE[:6]
    tables = _tables(zones)
    per_zone = {}
    for z in zones:
        ctx = Ctx(rng, tables[z])
        per_zone[z] = [dict(gen_case(prop, ctx, rng), zone=z) for _ in range(150 if prop != 'C16' else 6)]
    with ThreadPoolExecutor(max_workers=coqrun.JOBS) as ex:
        outs = list(ex.map(lambda z: (z, _impl_zone(z, per_zone[z], scratch)), zones))
    found = []
    for z, results in outs:
        ref = Ref(z)
        for c in results:
            if prop != 'C16' and any(r[0] == 'budget' for _, r in c['results']):
                continue
            bad, _ = oracle(prop, z, ref, c)
            for msg in bad[:1]:
                found.append({'what': msg, 'case': c, 'observed': c['results'][:8], 'zone': z})
    found.sort(key=lambda v: len(json.dumps(v['case']['expr'])))
    return found


def match_known(prop: str, v: dict, known: list):
    for f in known:
        if f.get('class') == 'F9' and prop == 'C16':
            if v['case'].get('unsat_interval') and 'never accepts' in v['what']:
                return f['id']
        if f.get('class') == 'F18' and prop == 'C05':
            if v['case'].get('expr', [None])[0] == 'group' and 'another member never fires' in v['what']:
                return f['id']
        if f.get('class') == 'F19' and prop == 'C16':
            e = v['case'].get('expr', [None])
            if 'ended with EValueError' in v['what'] and '"after"' in json.dumps(e):
                return f['id']
        if f.get('class') == 'F20' and prop == 'C16':
            if v['case'].get('kind') == 'elevation' and 'ended with ValueError' in v['what']:
                return f['id']
        if f.get('class') == 'F17' and prop == 'C16':
            if v['case'].get('kind') == 'azimuth' and 'OverflowError' in v['what']:
                return f['id']
        if f.get('class') == 'F6' and prop == 'C14':
            e = v['case']['expr']
            eff_low = e[2] if e[0] == 'jitter' else (e[1][2] + e[2] if e[0] == 'offset' and e[1][0] == 'jitter' else 0)
            if eff_low < 0 and 'firings attributed' in v['what']:
                return f['id']
    return None


def replay_known(prop: str, f: dict, scratch: Path):
    if 'case' not in f:
        return None
    c = f['case']
    if c.get('kind') in ('azimuth', 'elevation'):
        _, bad = az_probe(random.Random(0), 0, c)
        return bool(bad)
    res = _impl_zone(c['zone'], [c], scratch)
    bad, _ = oracle(prop, c['zone'], Ref(c['zone']), res[0])
    return bool(bad)
