"""filters_coq.py — print C17 cases as Coq terms of FilterCases.v (fcase, lcase, pcase, tcase, ccase)."""
from __future__ import annotations

HEADER = 'From EAS Require Import Base Civil Filters Parse FilterCases.\n'
DOM = {'weekdays': 'DWeekdays', 'days': 'DDays', 'months': 'DMonths'}


def z(v: int) -> str:
    return f'({v})' if v < 0 else str(v)


def optz(v) -> str:
    return 'None' if v is None else f'(Some {z(v)})'


def zlist(l) -> str:
    return '[' + '; '.join(z(int(x)) for x in l) + ']'


def cstr(s: str) -> str:
    return '[' + '; '.join(str(ord(c)) for c in s) + ']'


def boolc(b) -> str:
    return 'true' if b else 'false'


def pval(x) -> str:
    """encoded value (see filters_gen) -> Coq pval; the caller has checked in_model(x)"""
    if isinstance(x, dict):
        if 'b' in x:
            return f'(VInt {1 if x["b"] else 0})'          # bool is an int subclass: True == 1, False == 0
        if 't' in x:
            return '(VList [' + '; '.join(pval(y) for y in x['t']) + '])'
        raise ValueError(x)
    if isinstance(x, list):
        return '(VList [' + '; '.join(pval(y) for y in x) + '])'
    if isinstance(x, str):
        return f'(VStr {cstr(x)})'
    return f'(VInt {z(x)})'


def pvals(args) -> str:
    return '[' + '; '.join(pval(a) for a in args) + ']'


def fexpr(e, hol_allowed=None) -> str:
    k = e[0]
    if k in ('any', 'all'):
        return f'({"XAny" if k == "any" else "XAll"} [' + '; '.join(fexpr(x, hol_allowed) for x in e[1]) + '])'
    if k == 'not':
        return f'(XNot {fexpr(e[1], hol_allowed)})'
    if k == 'time':
        return f'(XTime {optz(e[1])} {optz(e[2])})'
    if k == 'set':
        return f'(XSet {DOM[e[1]]} {pvals(e[2])})'
    if k == 'hol':
        # the holidays object is an oracle date -> bool; it is handed to the model by its extension:
        # the holiday list itself, or (work days) the working days among the days the case looks at
        if e[1] == 'holidays':
            return f'(XDateSet {zlist(e[2])} false)'
        allowed = hol_allowed(e) if hol_allowed else []
        return f'(XDateSet {zlist(allowed)} {boolc(e[1] == "not_work_days")})'
    raise ValueError(k)


def result_list(obs) -> str:
    """obs: list of ints, or an error tag string"""
    if isinstance(obs, list):
        return f'(Ok {zlist(obs)})'
    return f'(Raise {obs if obs in ("EValueError", "ETypeError") else "EOther"})'


def fcases_file(cases: list[str]) -> str:
    return (HEADER + 'Definition cases : list fcase := [\n' + ';\n'.join(cases) + '\n].\n'
            'Eval vm_compute in (fmismatches cases).\n')


def fcase(expr, built, pts, hol_allowed=None) -> str:
    b = 'None' if built is None else f'(Some {built if built in ("EValueError", "ETypeError") else "EOther"})'
    p = '; '.join(f'({z(off)}, {z(inst)}, {boolc(obs)})' for off, inst, obs in pts)
    return f'{{| fc_e := {fexpr(expr, hol_allowed)}; fc_built := {b};\n   fc_pts := [{p}] |}}'


def lcases_file(rows: list[tuple]) -> str:
    body = ';\n'.join('{| lc_off := %s; lc_inst := %s; lc_y := %s; lc_m := %s; lc_d := %s; lc_wd := %s; lc_tod := %s |}'
                      % tuple(z(v) for v in r) for r in rows)
    return HEADER + 'Definition cases : list lcase := [\n' + body + '\n].\nEval vm_compute in (lmismatches cases).\n'


def pcases_file(cases: list[dict]) -> str:
    body = ';\n'.join('{| pc_dom := %s; pc_builder := %s; pc_args := %s; pc_obs := %s |}'
                      % (DOM[c['dom']], boolc(c['builder']), pvals(c['args']), result_list(c['obs'])) for c in cases)
    return HEADER + 'Definition cases : list pcase := [\n' + body + '\n].\nEval vm_compute in (pmismatches cases).\n'


def tables_file(tables: dict, chars: list) -> str:
    t = ';\n'.join('(%s, [%s])' % (DOM[d], '; '.join(f'({cstr(k)}, {v})' for k, v in items))
                   for d, items in tables.items())
    c = ';\n'.join('{| cc_cp := %d; cc_space := %s; cc_digit := %s; cc_int := %s; cc_lower := %s |}'
                   % (cp, boolc(sp), boolc(dg), optz(iv), zlist(lw)) for cp, sp, dg, iv, lw in chars)
    return (HEADER + 'Definition tcases : list (dom * list (str * Z)) := [\n' + t + '\n].\n'
            'Definition ccases : list ccase := [\n' + c + '\n].\n'
            'Eval vm_compute in (tmismatches tcases).\nEval vm_compute in (cmismatches ccases).\n')


def debug_fcase(case_term: str, k: int) -> str:
    return (HEADER + f'Definition c : fcase := {case_term}.\n'
            'Eval vm_compute in (compile (fc_e c)).\n'
            f'Eval vm_compute in (match nth_error (fc_pts c) {k}%nat with Some (off, inst, obs) => '
            'let l := to_local_off inst off in Some (local_year l, local_month l, local_dom l, local_weekday l, local_tod l, '
            'match compile (fc_e c) with Ok f => Some (allow f l) | _ => None end, obs) | None => None end).\n')


def debug_pcase(case_term: str) -> str:
    return HEADER + f'Definition c : pcase := {case_term}.\nEval vm_compute in (pcase_model c, pc_obs c).\n'
