"""sched_oracle.py — the properties C01 C02 C07 C08 C09 C10 as executable checks on what the
*implementation* did in one history (concrete history + one observation per operation).  Written
independently of the Coq model: these checks decide whether a disagreement (or a broken proof) is a
violation of the property and produce the failing input."""
from __future__ import annotations

CREATE = ('once', 'countdown', 'at')


def _alloc_indices(case, obs):
    """job index given to each creation op (None when nothing was allocated)"""
    idx, out = 0, []
    for op, o in zip(case['ops'], obs):
        if op[0] in CREATE:
            if o['out'] in ('EKeyError', 'EValueError'):
                out.append(None)
            else:
                out.append(idx)
                idx += 1
        else:
            out.append(None)
    return out


def _prev_jobs(obs, i):
    return obs[i - 1]['jobs'] if i > 0 else []


def _job(jobs, j):
    return jobs[j] if j < len(jobs) else None


def execs(o):
    return [e for e in o['evs'] if e[0] == 'exec']


def targets(op):
    """job a control operation is addressed to"""
    if op[0] in ('cancel', 'pause', 'resume', 'reset', 'setcd', 'reg', 'unreg'):
        return op[1]
    return None


# --------------------------------------------------------------------------------------------------
def runaway(obs):
    return [(i, 'the implementation ran away: thousands of events in one operation (runaway re-execution)')
            for i, o in enumerate(obs) if o['out'] == 'Runaway']


def c01(case, obs):
    """on time and never early"""
    bad = runaway(obs)
    bad += reported_ok(case, obs)      # 'the next-run time that a job reports'
    alloc = _alloc_indices(case, obs)
    for i, (op, o) in enumerate(zip(case['ops'], obs)):
        for e in execs(o):
            _, j, at, ann, _opi = e
            if at < ann:
                bad.append((i, f'job {j} started at {at}, before its announced next run {ann}'))
            # the announced time is the one the job reported before this operation, unless this very
            # operation (re)announces it
            pj = _job(_prev_jobs(obs, i), j)
            rearmed = (op[0] in CREATE and alloc[i] == j) or (op[0] in ('reset', 'resume') and op[1] == j)
            if not rearmed:
                if pj is None or pj[0] != 'running' or pj[1] != ann:
                    bad.append((i, f'job {j} started for {ann} but reported {pj} before the operation'))
        # nothing due is left after a wake-up of an enabled scheduler / after a real re-enable
        woke = op[0] == 'wake' or (op[0] == 'enable' and op[1] is True and i > 0 and not obs[i - 1]['enabled']) \
            or (op[0] == 'enable' and op[1] is True and i == 0 and not case['enabled'])
        if woke and o['enabled'] and o['out'] == 'Done':
            for j, (st, nx) in enumerate(o['jobs']):
                if st == 'running' and nx is not None and nx <= o['now']:
                    bad.append((i, f'job {j} is due ({nx} <= {o["now"]}) but was not started in this wake-up'))
    return bad


def c02(case, obs):
    """no unauthorised, no duplicate execution; no interference; failed creations never run"""
    bad = runaway(obs)
    alloc = _alloc_indices(case, obs)
    failed_jobs = set()
    prev_enabled = case['enabled']
    started: dict = {}          # job -> announced next-run times it has been started for ("at most once per announced time")
    for i, (op, o) in enumerate(zip(case['ops'], obs)):
        pjobs = _prev_jobs(obs, i)
        ex = execs(o)
        seen = set()
        for e in ex:
            _, j, at, ann, _ = e
            if j in seen:
                bad.append((i, f'job {j} started twice in one operation'))
            seen.add(j)
            if ann in started.setdefault(j, set()):
                bad.append((i, f'job {j} was started a second time for the announced next-run time {ann}'))
            started[j].add(ann)
            if j >= 1000 or j in failed_jobs:
                bad.append((i, f'a job whose creation failed was started (job/tag {j})'))
                continue
            pj = _job(pjobs, j)
            rearmed = (op[0] in CREATE and alloc[i] == j) or (op[0] in ('reset', 'resume') and op[1] == j)
            if not rearmed and (pj is None or pj[0] != 'running'):
                bad.append((i, f'job {j} started although it was {pj} (not running) before the operation'))
            en_now = prev_enabled or (op[0] == 'enable' and op[1] is True)
            if not en_now:
                bad.append((i, f'job {j} started while the scheduler was disabled'))
        if op[0] in CREATE and o['out'] != 'Done':
            if alloc[i] is not None:
                failed_jobs.add(alloc[i])
            if ex and any(e[1] == alloc[i] or e[1] >= 1000 or alloc[i] is None for e in ex):
                # an execution of the job being created although the creation call failed
                for e in ex:
                    if alloc[i] is None or e[1] == alloc[i] or e[1] >= 1000:
                        pj = _job(pjobs, e[1])
                        if pj is None or pj[0] != 'running':
                            bad.append((i, f'creation failed with {o["out"]} but the job was started'))
        # after cancel / pause / stop returned the job is not running
        if op[0] in ('cancel', 'pause') and o['out'] == 'Done':
            pj = _job(o['jobs'], op[1])
            if pj is not None and pj[0] == 'running':
                bad.append((i, f'job {op[1]} still running after {op[0]}'))
        # non-interference: an operation addressed to j changes another job k only by executing k when due
        tj = targets(op)
        if tj is not None:
            for k, now_k in enumerate(o['jobs']):
                if k == tj:
                    continue
                pk = _job(pjobs, k)
                if pk is None:
                    continue
                executed = any(e[1] == k for e in ex)
                if now_k != pk and not executed:
                    bad.append((i, f'{op[0]} on job {tj} changed job {k} from {pk} to {now_k} without running it'))
                if executed:
                    due = pk[0] == 'running' and pk[1] is not None and pk[1] <= o['now']
                    if not due:
                        bad.append((i, f'{op[0]} on job {tj} caused job {k} ({pk}) to run although it was not due'))
        prev_enabled = o['enabled']
    return bad


def reported_ok(case, obs):
    """the public control properties report the job's state: status, and next_run_datetime = the next run as a naive
    date-time of the system time zone (microsecond resolution); controls of the same job compare equal, of different
    jobs unequal"""
    import datetime as _dt
    from zoneinfo import ZoneInfo
    bad = []
    tz = ZoneInfo(case.get('tz', 'UTC'))
    for i, o in enumerate(obs):
        for j, k in o.get('ctl_eq_bad', []):
            bad.append((i, f'controls {j} / {k}: == / != does not mean "same job"'))
        for j, st, nrd in o.get('reported', []):
            if j >= len(o['jobs']):
                continue
            jst, jn = o['jobs'][j]
            if st != jst:
                bad.append((i, f'control of job {j} reports status {st}, the job is {jst}'))
            if (nrd is None) != (jn is None):
                bad.append((i, f'control of job {j} reports next run {nrd}, the job has {jn}'))
            elif nrd is not None:
                want = _dt.datetime.fromtimestamp(jn // 10**9, tz).replace(tzinfo=None) + _dt.timedelta(microseconds=(jn % 10**9) // 1000)
                got = _dt.datetime(*nrd[:7])
                if not nrd[7] or abs((got - want).total_seconds()) > 2e-6:
                    bad.append((i, f'control of job {j} reports next run {got} (naive: {nrd[7]}), the job runs at {want} local time'))
    return bad[:3]


def c07(case, obs):
    """status / next agree; finished terminal; callbacks once with the new state; store exact"""
    bad = reported_ok(case, obs)
    alloc = _alloc_indices(case, obs)
    regs: dict[int, dict[str, list[int]]] = {}
    stored: dict[int, int] = {}      # job -> key
    for i, (op, o) in enumerate(zip(case['ops'], obs)):
        pjobs = _prev_jobs(obs, i)
        for j, (st, nx) in enumerate(o['jobs']):
            if st == 'unknown':
                continue
            if (st == 'running') != (nx is not None):
                bad.append((i, f'job {j}: status {st} but next run {nx}'))
        if op[0] in CREATE and alloc[i] is not None:
            regs[alloc[i]] = {'u': [], 'f': []}
            if case['store']:
                stored[alloc[i]] = op[2] if op[0] != 'at' else op[1]
        tj = targets(op)
        # finished is terminal
        if tj is not None and op[0] in ('cancel', 'pause', 'resume', 'reset', 'setcd'):
            pj = _job(pjobs, tj)
            if pj is not None and pj[0] == 'finished':
                if o['out'] == 'Done':
                    bad.append((i, f'{op[0]} on finished job {tj} did not raise'))
                prev = obs[i - 1]
                same = all(o[k] == prev[k] for k in ('enabled', 'timer', 'queue', 'jobs', 'store')) and not o['evs']
                if not same:
                    bad.append((i, f'{op[0]} on finished job {tj} changed the state'))
        # callbacks: what was invoked in this operation
        cbu = [e for e in o['evs'] if e[0] == 'cbu']
        cbf = [e for e in o['evs'] if e[0] == 'cbf']
        # expected on_update invocations: one per registered callback for every set_next_run
        expect_u: list = []
        ex = execs(o)
        if op[0] in ('pause', 'reset', 'resume') and o['out'] == 'Done' and tj in regs:
            expect_u.append(tj)
        order: list = []   # jobs in the order in which set_next_run / finish happened
        for e in o['evs']:
            if e[0] == 'exec' and e[1] in regs:
                order.append(e[1])
        got_u = [(e[1], e[2]) for e in cbu]
        got_f = [(e[1], e[2]) for e in cbf]
        want_u: list = []
        want_f: list = []
        kinds = {}
        k = 0
        for op2, a in zip(case['ops'], alloc):
            if a is not None:
                kinds[a] = op2[0]
        if op[0] in ('reset', 'resume') and o['out'] == 'Done' and tj in regs:
            want_u += [(tj, cb) for cb in regs[tj]['u']]
        for j in order:
            if kinds.get(j) == 'once':
                want_f += [(j, cb) for cb in regs[j]['f']]
            else:
                # countdown pauses, recurring jobs are rescheduled (when the trigger answered)
                newst = _job(o['jobs'], j)
                pj = _job(pjobs, j)
                failed_trigger = any(e[0] == 'handler' and e[1] == ['prod', j] for e in o['evs'])
                if not failed_trigger:
                    want_u += [(j, cb) for cb in regs[j]['u']]
        if op[0] == 'pause' and o['out'] == 'Done' and tj in regs:
            want_u += [(tj, cb) for cb in regs[tj]['u']]
        if op[0] == 'cancel' and o['out'] == 'Done' and tj in regs:
            want_f += [(tj, cb) for cb in regs[tj]['f']]
        if op[0] in CREATE:
            pass   # nothing can be registered yet
        if sorted(got_u) != sorted(want_u):
            bad.append((i, f'on_update callbacks invoked {got_u}, expected {want_u}'))
        if sorted(got_f) != sorted(want_f):
            bad.append((i, f'on_finished callbacks invoked {got_f}, expected {want_f}'))
        # the state a callback saw is the new one
        for e in cbu:
            j = e[1]
            final = _job(o['jobs'], j)
            later_change = sum(1 for x in order if x == j) + (1 if tj == j and op[0] in ('pause', 'reset', 'resume') else 0)
            if final is not None and later_change <= 1 and [e[3], e[4]] != list(final):
                bad.append((i, f'on_update callback of job {j} saw {(e[3], e[4])}, the job reports {final}'))
        # registrations
        if op[0] == 'reg' and tj in regs and op[3] not in regs[tj][op[2]]:
            regs[tj][op[2]].append(op[3])
        if op[0] == 'unreg' and tj in regs and op[3] in regs[tj][op[2]]:
            regs[tj][op[2]].remove(op[3])
        # job store = the added jobs that are not finished
        if case['store']:
            want = sorted(key for j, key in stored.items()
                          if _job(o['jobs'], j) is not None and _job(o['jobs'], j)[0] not in ('finished',))
            if sorted(o['store']) != want:
                bad.append((i, f'job store holds {sorted(o["store"])}, live added jobs are {want}'))
            if op[0] in CREATE and o['out'] != 'Done':
                # the caller got an exception instead of a control: nothing was added from its point of view
                prev_store = obs[i - 1]['store'] if i else []
                if o['store'] != prev_store:
                    bad.append((i, f'a creation refused with {o["out"]} changed the job store: '
                                   f'{prev_store} -> {o["store"]}'))
    return bad


def c08(case, obs):
    """one-shot and countdown jobs fire exactly when promised"""
    bad = []
    alloc = _alloc_indices(case, obs)
    once: dict[int, dict] = {}
    cd: dict[int, dict] = {}
    for i, (op, o) in enumerate(zip(case['ops'], obs)):
        a = alloc[i]
        if op[0] == 'once' and a is not None and o['out'] == 'Done':
            once[a] = {'t': op[1], 'runs': 0, 'cancelled': False}
        if op[0] == 'countdown' and a is not None and o['out'] == 'Done':
            cd[a] = {'secs': op[1], 'due': None, 'alive': True}
        tj = targets(op)
        # executions in this operation
        for e in execs(o):
            _, j, at, ann, _ = e
            if j in once:
                st = once[j]
                st['runs'] += 1
                if st['runs'] > 1:
                    bad.append((i, f'one-shot job {j} ran {st["runs"]} times'))
                if ann != st['t']:
                    bad.append((i, f'one-shot job {j} ran for {ann}, requested {st["t"]}'))
                if st['cancelled']:
                    bad.append((i, f'one-shot job {j} ran after cancel'))
                fin = _job(o['jobs'], j)
                if fin is None or fin[0] != 'finished':
                    bad.append((i, f'one-shot job {j} is {fin} after it ran'))
            if j in cd:
                st = cd[j]
                # a reset in this very operation happens before the execution only if it is this op
                if op[0] == 'reset' and tj == j and o['out'] == 'Done':
                    st['due'] = obs[i]['now'] + st['secs']
                if st['due'] is None:
                    bad.append((i, f'countdown job {j} ran without a preceding reset'))
                elif ann != st['due']:
                    bad.append((i, f'countdown job {j} ran for {ann}, last reset + countdown = {st["due"]}'))
                st['due'] = None
                st['ran_in'] = i
                fin = _job(o['jobs'], j)
                if fin is None or fin[0] != 'paused':
                    if not (op[0] == 'reset' and tj == j):
                        bad.append((i, f'countdown job {j} is {fin} after it ran (expected paused)'))
        if tj in cd and o['out'] == 'Done':
            st = cd[tj]
            if op[0] == 'reset' and st.get('ran_in') != i:
                st['due'] = o['now'] + st['secs']
            elif op[0] in ('pause', 'cancel'):
                st['due'] = None
            elif op[0] == 'setcd':
                st['secs'] = op[2]
        if tj in once and op[0] == 'cancel' and o['out'] == 'Done':
            once[tj]['cancelled'] = True
        # exactly once: a due one-shot / countdown must have run after a wake-up of the enabled scheduler
        if op[0] == 'wake' and o['enabled']:
            for j, st in once.items():
                if not st['cancelled'] and st['runs'] == 0 and st['t'] <= o['now']:
                    bad.append((i, f'one-shot job {j} due at {st["t"]} did not run by {o["now"]}'))
            for j, st in cd.items():
                if st['due'] is not None and st['due'] <= o['now']:
                    bad.append((i, f'countdown job {j} due at {st["due"]} did not run by {o["now"]}'))
    return bad


def c09(case, obs):
    """chronological order inside one wake-up; paused jobs never delay due ones"""
    bad = runaway(obs)
    for i, (op, o) in enumerate(zip(case['ops'], obs)):
        ex = execs(o)
        anns = [e[3] for e in ex]
        if anns != sorted(anns):
            bad.append((i, f'jobs started out of chronological order in one wake-up: {[(e[1], e[3]) for e in ex]}'))
        # the queue never contains a job without run time / not running
        for j in o['queue']:
            pj = _job(o['jobs'], j)
            if pj is None or pj[0] != 'running' or pj[1] is None:
                bad.append((i, f'queue contains job {j} which is {pj}'))
        nx = [_job(o['jobs'], j)[1] for j in o['queue'] if _job(o['jobs'], j) is not None and _job(o['jobs'], j)[1] is not None]
        if nx != sorted(nx):
            bad.append((i, f'queue is not sorted by next run: {o["queue"]}'))
    return bad


def strip_failures(obs):
    """observations with the exception-handler events removed"""
    out = []
    for o in obs:
        o2 = dict(o)
        o2['evs'] = [e for e in o['evs'] if e[0] != 'handler']
        out.append(o2)
    return out


def c10(case, obs, raised, obs_nofail=None):
    """failures in user code stay isolated"""
    bad = runaway(obs)
    handled = [e[1] for o in obs for e in o['evs'] if e[0] == 'handler']
    hs = sorted(map(str, handled))
    rs = sorted(map(str, raised + [['prod', e[1][1]] for o in obs for e in o['evs']
                                   if e[0] == 'handler' and e[1][0] == 'prod']))
    if hs != rs:
        bad.append((len(obs) - 1, f'exception handler received {hs}, injected failures that fired: {rs}'))
    # a failing callable / callback must not change anything else: compare with the failure-free run
    if obs_nofail is not None:
        a, b = strip_failures(obs), strip_failures(obs_nofail)
        for i, (x, y) in enumerate(zip(a, b)):
            if any(x[k] != y[k] for k in ('out', 'enabled', 'timer', 'queue', 'jobs', 'store', 'evs')):
                bad.append((i, 'the run with failing user code differs from the failure-free run: '
                               f'{ {k: (x[k], y[k]) for k in ("out", "timer", "queue", "jobs", "store", "evs") if x[k] != y[k]} }'))
                break
    # "the failing job keeps its normal schedule and the scheduler stays armed": a job that reports a next run is queued
    for i, o in enumerate(obs):
        if o['out'] == 'Runaway':
            continue
        for j, (st, nx) in enumerate(o['jobs']):
            if st == 'running' and j not in o['queue']:
                bad.append((i, f'job {j} is running (next run {nx}) but no longer queued: it will never be started'))
                break
    # a failing trigger must not cause a second execution for the same due time
    for i, o in enumerate(obs):
        seen = {}
        for e in execs(o):
            key = (e[1], e[3])
            seen[key] = seen.get(key, 0) + 1
        for (j, ann), n in seen.items():
            if n > 1:
                bad.append((i, f'job {j} was started {n} times for the same due time {ann}'))
    return bad


ORACLES = {'C01': c01, 'C02': c02, 'C07': c07, 'C08': c08, 'C09': c09}
