"""taskmgr_coq.py — print concrete task-manager traces and implementation observations as Coq terms
(TaskMgrCases.case)."""
from __future__ import annotations

SPOL = {'skip': 'SSkip', 'skip_first': 'SSkipFirst', 'skip_last': 'SSkipLast'}
PPOL = {'skip': 'PSkip', 'cancel_first': 'PCancelFirst', 'cancel_last': 'PCancelLast'}
NEXT = {'park': 'NPark', 'fin': 'NFin', 'raise': 'NRaise', 'ret': 'NRet'}


def nat(v: int) -> str:
    return f'{v}%nat'


def natlist(l) -> str:
    # observations are lists of N (the case files open N_scope)
    return '[' + '; '.join(str(x) for x in l) + ']'


def coq_mgr(spec) -> str:
    k = spec[0]
    if k == 'seq':
        return 'MSeq'
    if k == 'seqlim':
        return f'(MSeqLim {nat(spec[1])} {SPOL[spec[2]]})'
    if k == 'dedup':
        return 'MSeqDedup'
    if k == 'par':
        return 'MPar'
    if k == 'parlim':
        return f'(MParLim {nat(spec[1])} {PPOL[spec[2]]})'
    raise ValueError(spec)


def coq_beh(b) -> str:
    subs, nxt = b
    return '([' + '; '.join(f'({nat(c)}, {nat(k)})' for c, k in subs) + f'], {NEXT[nxt]})'


def coq_event(e) -> str:
    k = e[0]
    if k == 'submit':
        return f'Submit {nat(e[1])} {nat(e[2])}'
    if k == 'resolve':
        return f'Resolve {nat(e[1])}'
    if k == 'fail':
        return f'Fail {nat(e[1])}'
    if k == 'cancel':
        return f'CancelExt {nat(e[1])}'
    if k in ('run', 'tick'):
        return ('Run' if k == 'run' else 'Tick') + ' [' + '; '.join(coq_beh(b) for b in e[1]) + ']'
    raise ValueError(e)


def coq_obs(o) -> str:
    run = 'None' if o['running'] is None else f'(Some {o["running"]})'
    return ('(Build_obs %s %s %s %s %s %s %s %s %s %s %s)' % (
        'true' if o['flag'] else 'false', run, natlist(o['queue']), natlist(o['qkeys']),
        natlist(o['tracked']), natlist(o['ready']), natlist(o['cids']), natlist(o['started']),
        natlist(o['entlog']), natlist(o['closed']), natlist(o['mcanc'])))


def coq_case(ccase, obs) -> str:
    return ('(Build_case %s\n   [%s]\n   [%s])' % (
        coq_mgr(ccase['mgr']), ';\n     '.join(coq_event(e) for e in ccase['evs']),
        ';\n     '.join(coq_obs(o) for o in obs)))


def cases_file(cases: list[tuple[dict, list]]) -> str:
    body = ';\n'.join(coq_case(c, o) for c, o in cases)
    return ('From EAS Require Import Base TaskMgr TaskMgrCases.\nOpen Scope N_scope.\n'
            'Definition cases : list case := [\n' + body + '\n].\n'
            'Eval vm_compute in (mismatches cases).\n'
            'Eval vm_compute in (bad_indices case_wellformed cases).\n')


def debug_file(case_term: str, k: int) -> str:
    return ('From EAS Require Import Base TaskMgr TaskMgrCases.\nOpen Scope N_scope.\n'
            f'Definition c : case := {case_term}.\n'
            f'Eval vm_compute in (nth_error (case_model_obs c) {k}%nat).\n'
            f'Eval vm_compute in (nth_error (c_obs c) {k}%nat).\n')
