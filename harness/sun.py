"""sun.py — checks of the sun triggers (C18): the real producers (Dawn/Sunrise/Noon/Sunset/Dusk/
SunElevationProducerCompare) with the REAL astral on a grid of locations x events x start days x system
time zones; correspondence against the Coq model (Producers.get_next (PSun ..) threading the cache) fed
with astral's recorded per-date answers; Python oracles on the implementation's own answers:

 (i)  selection logic: every answer is an astral event of the configured location rounded up to the second,
      after the reference instant, accepted by the filter, and the nearest such event; along a chain every
      UTC day's event is visited once in order and, below 60 degrees latitude and where no date without an
      event lies in between, successive firings are 23.5 .. 24.5 h apart.  An anomaly is classified from astral's
      recorded answers for the affected days alone (classify): class F11 iff the recorded event time crosses
      00:00 UTC within the affected days (or an answer lies before its own date); class F15 iff the skipped event
      is astral's answer for date d but lies on date d+1; anything else is a violation.  match_known accepts an
      anomaly iff known_findings.json lists a finding of its class.
 (ii) astronomical sanity — a PLAIN TEST, not verified (astral's float trigonometry): astral.sun.elevation
      at the returned instant is within 0.6 degrees of the defining elevation (1.5 degrees within three days of
      a date on which the event does not occur: the sun grazes the elevation there) and the sun moves in the
      defining direction; for noon the elevation one minute before and after is not higher.
"""
from __future__ import annotations

import collections
import datetime as dtm
import hashlib
import json
import random
import re
import subprocess
from concurrent.futures import ThreadPoolExecutor
from pathlib import Path

from harness import sun_coq
from harness.prod import _tables
from harness.prod_oracle import Ref
from lib import coqrun

VERIF = Path(__file__).resolve().parent.parent
CORPUS = VERIF / 'corpus'
COQ_TARGETS = ['theories/SunCases.vo']

NS = 10**9
MIN = 60 * NS
HOUR = 3600 * NS
DAY = 86400 * NS
GAP_LO = 23 * HOUR + 30 * MIN
GAP_HI = 24 * HOUR + 30 * MIN
ELEV_TOL = 0.6
ELEV_TOL_GRAZING = 1.5   # next to a date on which the event does not occur (the sun grazes the defining elevation)
NOON_EPS = 0.02          # degrees: astral's noon is truncated to the second and uses the equation of time of 00:00

ZONES_QUICK = ['UTC', 'America/Chicago', 'Asia/Dhaka', 'Pacific/Fiji', 'Europe/Berlin', 'Australia/Lord_Howe']
ZONES_MORE = ['America/St_Johns', 'Pacific/Auckland', 'Asia/Kolkata', 'America/Nuuk', 'Pacific/Honolulu',
              'Asia/Tokyo', 'America/Sao_Paulo', 'Africa/Casablanca']
PER_ZONE = {'quick': 110, 'thorough': 600}
HEAVY_IN_COQ = {'quick': 5, 'thorough': 60}

LATS = [-70.0, -55.0, -33.87, -17.71, 0.0, 10.5, 23.44, 41.88, 52.52, 59.0, 61.0, 66.0, 70.0]
LONS = [-179.9, -150.0, -120.0, -87.63, -60.0, -30.0, 0.0, 13.4, 45.0, 90.41, 120.0, 150.0, 178.06, 179.9]
NAMED = [[41.88, -87.63, 0.0], [23.81, 90.41, 0.0], [-17.71, 178.06, 0.0], [52.52, 13.4, 43.0], [-33.87, 151.21, 0.0]]
BASE_EVENTS = [['dawn'], ['sunrise'], ['noon'], ['sunset'], ['dusk']]
ELEVATIONS = [-0.833, 5.0, 12.5, -3.0, 25.0]
DEF_ELEV = {'dawn': -6.0, 'sunrise': -0.833, 'sunset': -0.833, 'dusk': -6.0}
Y2025 = 20089            # day number of 2025-01-01

ASSUMPTIONS = {'C18': [
    'astral (3.2) is an oracle: its answers per (location, trigger, UTC date) are recorded during the '
    'implementation run (the producer\'s func is wrapped) and given to the model as a table; a date the '
    'implementation never asked is poisoned in the model',
    'NOT VERIFIED: that astral\'s instant is the astronomical event (float trigonometry); oracle (ii) samples '
    'astral.sun.elevation around the returned instants as a plain test: |elevation - defining elevation| <= '
    f'{ELEV_TOL} deg ({ELEV_TOL_GRAZING} deg within three days of a date without the event), direction of motion over '
    f'+-60 s, noon: elevation +-60 s not higher (+{NOON_EPS} deg)',
    'SUN_CACHE and OBSERVER are reset by the harness at the start of every case (the model starts from pstate0)',
    'the time-zone table (2000-2037) of each zone is extracted from whenever itself under TZ=<zone> on every run '
    '(used only by filters)',
    'azimuth trigger: not covered (its search loop is outside the per-date oracle)',
    'the gap bound 23.5 .. 24.5 h is applied below 60 degrees latitude between events of consecutive UTC dates',
]}
TRUSTED_EXTRA = {'C18': ['astral 3.2 (event times per date; elevation() for the sanity test)']}
RULE = ('case = locations + producers (event, filter) + step sequence (set_location, queries, chains, cache snapshots); '
        'non-trivial iff at least 5 answers are instants and astral was asked for at least 5 dates; distinct by hash of '
        '(zone, locations, producers, steps)')


# --------------------------------------------------------------------------------------------------
# generation
def _loc(rng: random.Random):
    p = rng.random()
    if p < 0.2:
        return list(rng.choice(NAMED))
    return [rng.choice(LATS), rng.choice(LONS), rng.choice([0.0, 0.0, 0.0, 250.0])]


def _event(rng: random.Random):
    if rng.random() < 0.62:
        return list(rng.choice(BASE_EVENTS))
    return ['elevation', rng.choice(ELEVATIONS), rng.choice(['rising', 'setting'])]


def _start(rng: random.Random) -> int:
    day = Y2025 + rng.randrange(0, 365)
    tod = rng.choice([0, 1, 12 * HOUR, DAY - 1, rng.randrange(0, 86400) * NS, rng.randrange(0, 86400) * NS + 500_000_000])
    return day * DAY + tod


def _filter(rng: random.Random):
    p = rng.random()
    if p < 0.35:
        return ['weekday', sorted(rng.sample(range(1, 8), rng.choice([1, 2, 3, 5])))]
    if p < 0.55:
        return ['not', ['weekday', sorted(rng.sample(range(1, 8), rng.choice([1, 2, 4])))]]
    if p < 0.7:
        return ['day', sorted(rng.sample(range(1, 29), rng.choice([3, 6, 12])))]
    if p < 0.8:
        return ['month', sorted(rng.sample(range(1, 13), rng.choice([6, 9])))]
    if p < 0.9:
        return ['any', [['weekday', [rng.randrange(1, 8)]], ['day', [1, 15]]]]
    return ['all', [['not', ['weekday', [6, 7]]], ['not', ['day', [13]]]]]


def gen_case(rng: random.Random) -> dict:
    p = rng.random()
    if p < 0.45:                                  # one producer, no filter, a chain of 20..40 firings
        return {'kind': 'chain', 'locs': [_loc(rng)], 'prods': [{'ev': _event(rng), 'filter': None}],
                'steps': [['loc', 0], ['chain', 0, _start(rng), rng.randrange(20, 41)], ['snap']]}
    if p < 0.55:                                  # polar latitudes / events that do not occur every day
        lat = rng.choice([-70.0, 66.0, 70.0, 61.0, 59.0, -66.5, 68.0])
        ev = rng.choice([['sunrise'], ['sunset'], ['dawn'], ['dusk'], ['elevation', 25.0, 'rising'],
                         ['elevation', 40.0, 'setting'], ['elevation', -12.0, 'rising']])
        return {'kind': 'polar', 'locs': [[lat, rng.choice(LONS), 0.0]], 'prods': [{'ev': ev, 'filter': None}],
                'steps': [['loc', 0], ['chain', 0, _start(rng), rng.randrange(20, 31)], ['snap']]}
    if p < 0.7:                                   # with a filter
        return {'kind': 'filter', 'locs': [_loc(rng)], 'prods': [{'ev': _event(rng), 'filter': _filter(rng)}],
                'steps': [['loc', 0], ['chain', 0, _start(rng), rng.randrange(8, 21)], ['snap']]}
    if p < 0.9:                                   # several producers, two locations, out-of-order queries
        locs = [_loc(rng), _loc(rng)]
        if locs[0] == locs[1]:
            locs[1] = [locs[1][0], locs[1][1], 250.0 if locs[1][2] == 0.0 else 0.0]
        ev = _event(rng)
        ev2 = _event(rng)
        if ev[0] == 'elevation' and rng.random() < 0.7:      # cache keys that differ in one parameter only
            other = 'setting' if ev[2] == 'rising' else 'rising'
            pick = rng.random()
            if pick < 0.4:
                ev2 = ['elevation', ev[1], other]
            elif pick < 0.7 and abs(ev[1]) >= 12.0:
                ev2 = ['elevation', -ev[1], other]        # mirrored: same magnitude, opposite sign and direction
            else:
                ev2 = ['elevation', rng.choice([x for x in ELEVATIONS if x != ev[1]]), ev[2]]
        prods = [{'ev': ev, 'filter': None}, {'ev': ev2, 'filter': None},
                 {'ev': ev, 'filter': _filter(rng) if rng.random() < 0.6 else None}]
        base = _start(rng)
        steps: list = []
        if rng.random() < 0.5:
            steps.append(['q', 0, base])          # before any location is set
        steps.append(['loc', 0])
        cur = 0
        for _ in range(rng.randrange(12, 30)):
            r = rng.random()
            if r < 0.12:
                cur = 1 - cur
                steps.append(['loc', cur])
            elif r < 0.16:
                steps.append(['loc', cur])        # set the same location again: a new Observer, the same values
            elif r < 0.2:
                steps.append(['noloc'])
                steps.append(['q', rng.randrange(3), base])
                steps.append(['loc', cur])
            elif r < 0.3:
                steps.append(['snap'])
            elif r < 0.4:
                steps.append(['chain', rng.randrange(3), base + rng.randrange(-5, 6) * DAY, rng.randrange(2, 6)])
            else:
                steps.append(['q', rng.randrange(3),
                              base + rng.choice([0, 0, -DAY, DAY, -3 * DAY, 2 * DAY, 7 * DAY, -7 * DAY, HOUR, -HOUR,
                                                 rng.randrange(-10 * 86400, 10 * 86400) * NS])])
        steps.append(['snap'])
        return {'kind': 'mixed', 'locs': locs, 'prods': prods, 'steps': steps}
    # cache eviction: more than 64 distinct (date, location, producer) entries with snapshots around the limit, then the
    # early dates again
    loc = _loc(rng)
    ev1, ev2 = _event(rng), _event(rng)
    base = _start(rng)
    n1 = rng.randrange(30, 46)
    steps = [['loc', 0], ['chain', 0, base, n1], ['snap']]
    for i in range(rng.randrange(30, 44)):
        steps.append(['q', 1, base + i * DAY])
        if n1 + i >= 58:
            steps.append(['snap'])
    for _ in range(5):
        steps.append(['q', rng.randrange(2), base + rng.randrange(0, 40) * DAY])
    steps += [['snap'], ['chain', 0, base + 3 * DAY, 12], ['snap']]
    return {'kind': 'evict', 'locs': [loc], 'prods': [{'ev': ev1, 'filter': None}, {'ev': ev2, 'filter': None}],
            'steps': steps}


def _d(y, m, d, hh=0, mm=0) -> int:
    return int(dtm.datetime(y, m, d, hh, mm, tzinfo=dtm.timezone.utc).timestamp()) * NS


# pinned witnesses of F11 (numbers also in coq/theories/SunFacts.v) + cases that sweep a whole year
PINNED = [
    {'kind': 'pinned', 'note': 'F11 Chicago sunset, skip', 'zone': 'America/Chicago', 'locs': [[41.88, -87.63, 0.0]],
     'prods': [{'ev': ['sunset'], 'filter': None}], 'steps': [['loc', 0], ['chain', 0, _d(2025, 9, 13), 6], ['snap']]},
    {'kind': 'pinned', 'note': 'F11 Dhaka sunrise October, repeat', 'zone': 'Asia/Dhaka', 'locs': [[23.81, 90.41, 0.0]],
     'prods': [{'ev': ['sunrise'], 'filter': None}], 'steps': [['loc', 0], ['chain', 0, _d(2025, 10, 20, 12), 7], ['snap']]},
    {'kind': 'pinned', 'note': 'F11 Dhaka sunrise March, skip', 'zone': 'Asia/Dhaka', 'locs': [[23.81, 90.41, 0.0]],
     'prods': [{'ev': ['sunrise'], 'filter': None}], 'steps': [['loc', 0], ['chain', 0, _d(2025, 3, 19, 12), 7], ['snap']]},
    {'kind': 'pinned', 'note': 'F11 Fiji noon, InfiniteLoopDetectedError', 'zone': 'Pacific/Fiji',
     'locs': [[-17.71, 178.06, 0.0]], 'prods': [{'ev': ['noon'], 'filter': None}],
     'steps': [['loc', 0], ['chain', 0, _d(2025, 9, 25, 12), 12], ['snap']]},
    {'kind': 'pinned', 'note': 'F15 Chicago elevation trigger (setting) with a Tuesday filter: the Tuesday evening of the '
                               'same week is never looked at', 'zone': 'America/Chicago', 'locs': [[41.88, -87.63, 0.0]],
     'prods': [{'ev': ['elevation', -0.833, 'setting'], 'filter': ['weekday', [2]]},
               {'ev': ['elevation', -0.833, 'setting'], 'filter': None}],
     'steps': [['loc', 0], ['q', 0, _d(2025, 6, 16, 12)], ['q', 1, _d(2025, 6, 21, 0, 1)], ['snap']]},
    {'kind': 'pinned', 'note': 'Berlin sunrise, one year', 'zone': 'Europe/Berlin', 'locs': [[52.52, 13.4, 43.0]],
     'prods': [{'ev': ['sunrise'], 'filter': None}], 'steps': [['loc', 0], ['chain', 0, _d(2025, 1, 1), 366], ['snap']]},
    {'kind': 'pinned', 'note': 'Tromso-like sunset through polar day and night, one year', 'zone': 'UTC',
     'locs': [[70.0, 13.4, 0.0]], 'prods': [{'ev': ['sunset'], 'filter': None}],
     'steps': [['loc', 0], ['chain', 0, _d(2025, 1, 1), 250], ['snap']]},
    {'kind': 'pinned', 'note': 'an elevation the sun never reaches: ValueError after 367 dates', 'zone': 'UTC',
     'locs': [[52.52, 13.4, 43.0]], 'prods': [{'ev': ['elevation', 85.0, 'rising'], 'filter': None}],
     'steps': [['loc', 0], ['q', 0, _d(2025, 1, 1)], ['snap']]},
]


# --------------------------------------------------------------------------------------------------
def _impl_zone(zone: str, cases: list, scratch: Path) -> list:
    tag = zone.replace('/', '_')
    inp, outp = scratch / f'sun_in_{tag}.json', scratch / f'sun_out_{tag}.json'
    inp.write_text(json.dumps(cases))
    env = {'PYTHONPATH': f'{coqrun.REPO}/src:{VERIF}', 'PYTHONHASHSEED': '0', 'PATH': '/usr/bin:/bin', 'TZ': zone}
    r = subprocess.run(['/venv/bin/python', '-u', '-m', 'harness.sun_runner', str(inp), str(outp)], cwd=VERIF, env=env,
                       capture_output=True, text=True, timeout=1800)
    if r.returncode != 0:
        raise RuntimeError(f'sun runner failed in {zone}: ' + r.stderr[-3000:])
    return json.loads(outp.read_text())


# --------------------------------------------------------------------------------------------------
# oracles
def ru(e: int) -> int:
    return -((-e) // NS) * NS


def tables_of(c: dict) -> dict:
    t: dict = collections.defaultdict(dict)
    for l, k, d, v in c['oracle'] + c['extra']:
        t[(l, k)][d] = v
    return t


def crossing(tab: dict, lo: int, hi: int) -> bool:
    """the recorded event time crosses 00:00 UTC within the days lo..hi: an answer lies before its own date, or
    the time of day of the answers lies on both sides of midnight (within six hours of it)"""
    us = []
    for d in range(lo, hi + 1):
        e = tab.get(d)
        if e is None:
            continue
        if e < d * DAY:
            return True
        u = (e + 12 * HOUR) % DAY - 12 * HOUR
        if abs(u) < 6 * HOUR:
            us.append(u)
    return any(u < 0 for u in us) and any(u >= 0 for u in us)


def shift_of(tab: dict, lo: int, hi: int):
    """0: every recorded answer of lo..hi lies on its own UTC date; 1: on the following date; None: neither /
    a date without an event"""
    s = set()
    for d in range(lo, hi + 1):
        if d not in tab:
            continue
        e = tab[d]
        if e is None:
            return None
        s.add(ru(e) // DAY - d if e // DAY == ru(e) // DAY else 99)
    if s == {0}:
        return 0
    if s == {1}:
        return 1
    return None


ANOMALY_KINDS = ('gap', 'day_order', 'infinite_loop', 'not_nearest', 'sanity')
CLASS_CROSSING = 'F11'       # the event time crosses 00:00 UTC within the affected days
CLASS_FOLLOWING = 'F16'      # an event still ahead is not looked at because astral files it under the previous UTC date


def classify(a: dict):
    """class of a chain anomaly, recomputed from astral's recorded answers for the affected days (nothing else)"""
    w, ow = a.get('window'), a.get('oracle_window')
    if a.get('kind') not in ANOMALY_KINDS or not w or ow is None:
        return None
    if crossing({d: e for d, e in ow}, w[2], w[3]):
        return CLASS_CROSSING
    sk = a.get('skipped')
    if a['kind'] == 'not_nearest' and sk and sk[1] is not None and sk[1] >= (sk[0] + 1) * DAY:
        return CLASS_FOLLOWING
    return None


def check_case(c: dict, ref: Ref) -> tuple[list, collections.Counter]:
    """-> (anomalies, stats).  anomaly: {'what', 'kind', 'step', 'window': [loc, key, lo, hi] | None,
    'oracle_window': astral's answers for the window, 'skipped': [date, answer] | None, 'class': 'F11'|'F16'|None}"""
    st = collections.Counter()
    out = []
    tabs = tables_of(c)
    cur = None
    prev: dict = {}          # chain_no -> (v, day index of v)
    for si, s in enumerate(c['trace']):
        if s[0] == 'loc':
            cur = s[1]
            continue
        if s[0] != 'q':
            continue
        _, p, dt, res, cn, idx = s
        key = c['pkeys'][p]
        f = c['prods'][p].get('filter')
        if cur is None:
            st['location_not_set'] += 1
            if res != ['raise', 'ELocationNotSet']:
                out.append({'what': f'no location configured, get_next({dt}) answered {res}', 'kind': 'no_location',
                            'step': si, 'window': None})
            continue
        lat = c['locs'][cur][0]
        tab = tabs[(cur, key)]
        d0 = dt // DAY

        def anomaly(kind: str, what: str, hi_day: int, skipped=None) -> None:
            lo, hi = d0 - 1, max(hi_day, d0) + 1
            a = {'what': what, 'kind': kind, 'step': si, 'window': [cur, key, lo, hi], 'skipped': skipped,
                 'oracle_window': [[d, tab[d]] for d in range(lo, hi + 1) if d in tab]}
            a['class'] = classify(a)
            out.append(a)

        if res[0] == 'raise':
            if res[1] == 'EInfiniteLoop':        # (every generated filter accepts some day of every month)
                st['infinite_loop'] += 1
                hi_day = d0                       # the affected days: every date the search went through
                while hi_day + 1 in tab and hi_day < d0 + 400:
                    hi_day += 1
                anomaly('infinite_loop', f'get_next({dt}) ended in InfiniteLoopDetectedError', hi_day - 1)
            elif res[1] == 'EValueError':
                st['value_error'] += 1
                if not all(tab.get(d, 0) is None for d in range(d0, d0 + 367)) and f is None:
                    out.append({'what': f'get_next({dt}) raised ValueError although a date within 366 days has the event',
                                'kind': 'value_error', 'step': si, 'window': None})
            else:
                out.append({'what': f'get_next({dt}) raised {res[1]}', 'kind': 'error', 'step': si, 'window': None})
            continue
        if res[0] != 'ok':
            out.append({'what': f'get_next({dt}) did not finish in the time budget', 'kind': 'budget', 'step': si,
                        'window': None})
            continue
        v = res[1]
        st['answers'] += 1
        days_v = sorted(d for d, e in tab.items() if e is not None and ru(e) == v)
        if v <= dt or v % NS or not days_v or not ref.allow(f, v):
            out.append({'what': f'get_next({dt}) answered {v}: ' + (
                'not after the reference instant' if v <= dt else 'not a full second' if v % NS else
                'not an instant astral gave for this location and trigger (rounded up)' if not days_v else
                'rejected by the filter'), 'kind': 'not_event', 'step': si, 'window': None})
            continue
        # the nearest admissible event
        cands = [ru(e) for d, e in tab.items() if e is not None and ru(e) > dt and d >= d0 - 2 and ref.allow(f, ru(e))]
        want = min(cands) if cands else v
        if v != want:
            st['not_nearest'] += 1
            dw = min(d for d, e in tab.items() if e is not None and ru(e) == want)
            anomaly('not_nearest', f'get_next({dt}) answered {v} but the event {want} is earlier and admissible',
                    v // DAY, skipped=[dw, tab[dw]])
        # along a chain without a filter: every day's event once, in order; spacing
        if cn is not None and f is None:
            if idx > 0 and cn in prev:
                pv, pd = prev[cn]
                later = [d for d in days_v if d > pd]
                dv = later[0] if later else days_v[0]
                nxt = [d for d, e in tab.items() if d > pd and e is not None]
                nd = min(nxt) if nxt else None
                gap = v - pv
                if dv != nd:
                    st['day_out_of_order'] += 1
                    anomaly('day_order', f'after the event of day {pd} the chain fired the event of day {dv}; the next '
                                         f'date with an event is {nd}', v // DAY)
                elif nd == pd + 1:
                    if any(tab.get(d, 0) is None for d in range(pd - 3, dv + 4)):
                        st['gaps_next_to_dates_without_event_not_bounded'] += 1
                    elif abs(lat) < 60:
                        st['gaps_checked'] += 1
                        if not GAP_LO <= gap <= GAP_HI:
                            st['gap_out_of_bounds'] += 1
                            anomaly('gap', f'successive firings {pv} and {v} are {gap / HOUR:.3f} h apart', v // DAY)
                    else:
                        st['gaps_above_60_not_bounded'] += 1
                else:
                    st['polar_skips'] += 1
                prev[cn] = (v, dv)
            else:
                prev[cn] = (v, days_v[0] if len(days_v) == 1 else max([d for d in days_v if d <= v // DAY] or days_v))
    return out, st


def chain_classes(c: dict) -> collections.Counter:
    """regularity premise per (location, trigger, range of a chain), computed from the recorded oracle"""
    st = collections.Counter()
    tabs = tables_of(c)
    cur = None
    spans: dict = {}
    for s in c['trace']:
        if s[0] == 'loc':
            cur = s[1]
        elif s[0] == 'q' and s[4] is not None and cur is not None and s[3][0] == 'ok':
            k = (s[4], cur, c['pkeys'][s[1]])
            lo, hi = spans.get(k, (s[2] // DAY, s[2] // DAY))
            spans[k] = (min(lo, s[2] // DAY), max(hi, s[3][1] // DAY))
    for (_, loc, key), (lo, hi) in spans.items():
        tab = tabs[(loc, key)]
        if any(tab.get(d, 0) is None for d in range(lo, hi + 1)):
            st['ranges_with_dates_without_event'] += 1
            continue
        sh = shift_of(tab, lo, hi)
        ev = [tab[d] for d in range(lo, hi + 1) if tab.get(d) is not None]
        smooth = all(abs(b - a - DAY) <= 30 * MIN for a, b in zip(ev, ev[1:]))
        if sh == 0 and smooth:
            st['ranges_utc_regular'] += 1
        elif sh == 1 and smooth:
            st['ranges_regular_on_following_date'] += 1
        elif crossing(tab, lo, hi):
            st['ranges_irregular_crossing_midnight_utc'] += 1
        else:
            st['ranges_irregular_other'] += 1
    return st


def sanity_case(c: dict) -> tuple[list, collections.Counter]:
    """oracle (ii), a plain test.  A failing sample whose date lies where the event time crosses 00:00 UTC (astral then
    answers with the computation of the neighbouring date) carries its window so that it is classified with F11."""
    bad, st = [], collections.Counter()
    tabs = tables_of(c)
    for loc, key, v, e0, e1, e2 in c['sanity']:
        spec = c['keys'][key]
        if e1 is None:
            continue
        msg = None
        if spec[0] == 'noon':
            st['sanity_noon'] += 1
            if e0 > e1 + NOON_EPS or e2 > e1 + NOON_EPS:
                msg = f'noon answer {v} at {c["locs"][loc]}: elevation {e1:.4f}, a minute before {e0:.4f}, after {e2:.4f}'
        else:
            want = spec[1] if spec[0] == 'elevation' else DEF_ELEV[spec[0]]
            rising = spec[0] in ('dawn', 'sunrise') or (spec[0] == 'elevation' and spec[2] == 'rising')
            st['sanity_elevation'] += 1
            tab = tabs[(loc, key)]
            grazing = any(tab.get(d, 0) is None for d in range(v // DAY - 3, v // DAY + 4))
            st['sanity_next_to_dates_without_event_wider_bound'] += grazing
            if abs(e1 - want) > (ELEV_TOL_GRAZING if grazing else ELEV_TOL):
                msg = f'{spec} answer {v} at {c["locs"][loc]}: elevation {e1:.3f}, defining elevation {want}'
            elif (e2 - e0 > 0) != rising and abs(e2 - e0) > 0.01:
                msg = f'{spec} answer {v} at {c["locs"][loc]}: the sun is moving the wrong way ({e0:.3f} -> {e2:.3f})'
        if msg:
            tab = tabs[(loc, key)]
            lo, hi = v // DAY - 2, v // DAY + 2
            a = {'what': 'astronomical sanity (plain test): ' + msg, 'kind': 'sanity', 'window': [loc, key, lo, hi],
                 'oracle_window': [[d, tab[d]] for d in range(lo, hi + 1) if d in tab], 'step': None, 'skipped': None}
            a['class'] = classify(a)
            bad.append(a)
    return bad, st


def strip(c: dict) -> dict:
    """the replayable part of a case"""
    return {k: c[k] for k in ('kind', 'note', 'zone', 'locs', 'prods', 'steps') if k in c}


# --------------------------------------------------------------------------------------------------
def run(prop: str, tier: str, seed: int, scratch: Path, replay=None, model_ok=True) -> dict:
    rng = random.Random(f'{prop}-{seed}')
    zones = list(ZONES_QUICK) if tier == 'quick' else ZONES_QUICK + ZONES_MORE
    per_zone: dict[str, list] = {}
    if replay:
        payload = json.loads(Path(replay).read_text())
        zones = [payload['case']['zone']]
        per_zone[zones[0]] = [strip(payload['case'])]
    else:
        for z in zones:
            cases = [dict(c) for c in PINNED if c['zone'] == z]
            d = CORPUS / prop
            if d.is_dir():
                for p in sorted(d.glob('*.json')):
                    cc = json.loads(p.read_text())['case']
                    if cc.get('zone') == z:
                        cases.append(strip(cc))
            cases += [gen_case(rng) for _ in range(PER_ZONE[tier])]
            for c in cases:
                c['zone'] = z
            per_zone[z] = cases
    tables = _tables(zones)
    with ThreadPoolExecutor(max_workers=coqrun.JOBS) as ex:
        outs = list(ex.map(lambda z: (z, _impl_zone(z, per_zone[z], scratch)), zones))

    spec_violations, corr_failures, sanity_failures = [], [], []
    dist = collections.Counter()
    stats = collections.Counter()
    events = collections.Counter()
    lat_bands = collections.Counter()
    lon_bands = collections.Counter()
    answers = collections.Counter()
    kinds = collections.Counter()
    seen = set()
    nontriv = 0
    files, index, heavy = [], {}, []
    for z, results in outs:
        ref = Ref(z)
        for c in results:
            kinds[c['kind']] += 1
            for pd in c['prods']:
                events[pd['ev'][0] if pd['ev'][0] != 'elevation' else f'elevation_{pd["ev"][2]}'] += 1
                dist['producers_with_filter' if pd.get('filter') else 'producers_without_filter'] += 1
            for lat, lon, _ in c['locs']:
                a = abs(lat)
                lat_bands['tropics <=23.5' if a <= 23.5 else '23.5..60' if a < 60 else '>=60'] += 1
                lat_bands['southern'] += lat < 0
                lon_bands['|lon|>=150' if abs(lon) >= 150 else 'west' if lon < 0 else 'east'] += 1
            n_ok = 0
            for s in c['trace']:
                if s[0] == 'q':
                    answers[s[3][0] if s[3][0] != 'raise' else s[3][1]] += 1
                    n_ok += s[3][0] == 'ok'
                else:
                    dist['set_location' if s[0] == 'loc' and s[1] is not None else
                         'location_unset' if s[0] == 'loc' else 'cache_snapshots'] += 1
            dist['astral_dates_asked'] += len(c['oracle'])
            dist['max_cache_len'] = max(dist['max_cache_len'], max((len(s[1]) for s in c['trace'] if s[0] == 'snap'), default=0))
            if c['nondet']:
                corr_failures.append({'zone': z, 'case': strip(c), 'error': f'astral answered differently for the same date: {c["nondet"][:2]}'})
            h = hashlib.sha1(json.dumps([z, c['locs'], c['prods'], c['steps']], sort_keys=True).encode()).hexdigest()
            if h not in seen and n_ok >= 5 and len(c['oracle']) >= 5:
                nontriv += 1
            seen.add(h)
            anomalies, st = check_case(c, ref)
            stats.update(st)
            stats.update(chain_classes(c))
            bad, st2 = sanity_case(c)
            stats.update(st2)
            sanity_failures += bad
            for a in anomalies[:3] + bad[:1]:
                stats[f'anomalies_{a["kind"]}_class_{a.get("class")}'] += 1
                spec_violations.append(_violation(a, c, z))
        # an InfiniteLoopDetectedError answer costs the model 99 999 rounds (about 9 s in Coq's VM): such cases get a
        # file of their own and only HEAVY_IN_COQ[tier] of them are evaluated in Coq (all are checked by the oracles)
        light = []
        for c in results:
            n_inf = sum(1 for s in c['trace'] if s[0] == 'q' and s[3] == ['raise', 'EInfiniteLoop'])
            if n_inf == 0 and len(c['oracle']) <= 3000:
                light.append(c)
            elif n_inf == 1 and len(c['oracle']) <= 3000 and (c['kind'] == 'pinned' or len(heavy) < HEAVY_IN_COQ[tier]):
                heavy.append((z, c))
            else:
                stats['not_evaluated_in_coq_too_much_work'] += 1
        # shards of about 90 kB of Coq text (reading the literals dominates the evaluation time)
        shards, cur_shard, size = [], [], 0
        for c in light:
            n = 40 * len(c['oracle']) + sum(60 if s[0] == 'q' else 20 * len(s[1]) if s[0] == 'snap' else 20 for s in c['trace'])
            if cur_shard and size + n > 90_000:
                shards.append(cur_shard)
                cur_shard, size = [], 0
            cur_shard.append(c)
            size += n
        if cur_shard:
            shards.append(cur_shard)
        for k, sh in enumerate(shards):
            p = scratch / f'sun_{z.replace("/", "_")}_{k}.v'
            p.write_text(sun_coq.cases_file(sh, tables[z]))
            files.append(p)
            index[p.name] = (z, sh)

    for k, (z, c) in enumerate(heavy):
        p = scratch / f'sun_heavy_{k}.v'
        p.write_text(sun_coq.cases_file([c], tables[z]))
        files.insert(0, p)
        index[p.name] = (z, [c])
    stats['evaluated_in_coq_with_infinite_loop'] = len(heavy)

    if model_ok:
        for p, rc, out in coqrun.eval_cases(files):
            z, cs = index[p.name]
            if rc != 0:
                corr_failures.append({'file': p.name, 'zone': z, 'error': out[-1500:]})
                continue
            flat = ' '.join(out.split())
            ms = re.findall(r'= (\[.*?\]) : list \(nat \* nat\)', flat)
            if len(ms) != 2:
                corr_failures.append({'file': p.name, 'zone': z, 'error': 'cannot parse: ' + flat[-400:]})
                continue
            for ci, k in coqrun.parse_pairs(ms[0]):
                c = cs[ci]
                dout = ''
                if len(corr_failures) < 2:
                    dbg = scratch / f'sun_dbg_{len(corr_failures)}.v'
                    dbg.write_text(sun_coq.debug_file(c, tables[z]))
                    _, dout = coqrun.coqc_file(dbg)
                corr_failures.append({'zone': z, 'case': strip(c), 'step_index': k, 'implementation': c['trace'][k],
                                      'model_coq': ' '.join(dout.split())[-1500:]})
            for ci, k in coqrun.parse_pairs(ms[1]):
                spec_violations.append({'what': 'an answer is not an astral event rounded up / not after its reference '
                                                'instant / rejected by the filter (checked in Coq)',
                                        'case': cs[ci], 'op_index': k, 'zone': z, 'kind': 'not_event', 'window': None, 'class': None})
    else:
        corr_failures.append({'error': 'model does not build'})

    total = sum(len(r) for _, r in outs)
    samples = []
    for z, results in outs[:2]:
        for c in results[-1:]:
            samples.append({'zone': z, 'locs': c['locs'], 'prods': c['prods'], 'steps': c['steps'][:4],
                            'answers': [s[3] for s in c['trace'] if s[0] == 'q'][:4]})
    for v in spec_violations:
        v['case'] = strip(v['case']) | {'zone': v['zone']}
    return {
        'evaluations': total, 'distinct_nontrivial': nontriv, 'rule': RULE, 'samples': samples,
        'corr_failures': corr_failures, 'spec_violations': spec_violations,
        'distribution': {'zones': zones, 'cases_per_zone': PER_ZONE[tier], 'case_kinds': dict(kinds), 'events': dict(events),
                         'latitudes': dict(lat_bands), 'longitudes': dict(lon_bands), 'answers': dict(answers),
                         'steps': dict(dist), 'oracle_i': dict(stats)},
        'extra': {'astronomical_sanity': 'plain test, not verified: astral\'s float trigonometry '
                                         f'({stats["sanity_elevation"]} elevation samples checked against +-{ELEV_TOL} deg, '
                                         f'{stats["sanity_noon"]} noon samples, {len(sanity_failures)} failures, all classified '
                                         'below)',
                  'anomaly_classes': {'F11': 'the recorded event time crosses 00:00 UTC within the affected days '
                                             '(or an answer lies before its own UTC date)',
                                      'F16': 'the skipped event is astral\'s answer for UTC date d but lies on date d+1 '
                                             '(time_at_elevation): the lookup by the reference instant\'s date never asks for it',
                                      'None': 'anything else: a violation'},
                  'anomalies_by_class': dict(collections.Counter(str(v.get('class')) for v in spec_violations))},
    }


# --------------------------------------------------------------------------------------------------
def _violation(a: dict, c: dict, z: str) -> dict:
    st = a.get('step')
    return {'what': a['what'], 'case': c, 'zone': z, 'kind': a['kind'], 'op_index': st,
            'observed': c['trace'][max(0, st - 2):st + 1] if st is not None and 'trace' in c else None,
            'window': a.get('window'), 'oracle_window': a.get('oracle_window'), 'skipped': a.get('skipped'),
            'class': a.get('class')}


def match_known(prop: str, v: dict, known: list):
    """a chain anomaly is a known finding iff its class — recomputed here from astral's recorded answers for the
    affected days — is the class of a listed finding"""
    cls = classify(v)
    if cls is None:
        return None
    for f in known:
        if f.get('class') == cls and f.get('property', prop) == prop:
            return f['id']
    return None


def replay_known(prop: str, f: dict, scratch: Path):
    if 'case' not in f:
        return None
    c = strip(f['case']) | {'zone': f['case']['zone']}
    c.setdefault('kind', 'pinned')
    res = _impl_zone(c['zone'], [c], scratch)
    anomalies, _ = check_case(res[0], Ref(c['zone']))
    return any(a.get('class') == f.get('class') for a in anomalies)


def search(prop: str, seed: int, scratch: Path) -> list:
    rng = random.Random(f'search-{prop}-{seed}')
    zones = ZONES_QUICK[:4]
    per_zone = {z: [dict(gen_case(rng), zone=z) for _ in range(400)] for z in zones}
    with ThreadPoolExecutor(max_workers=coqrun.JOBS) as ex:
        outs = list(ex.map(lambda z: (z, _impl_zone(z, per_zone[z], scratch)), zones))
    found = []
    for z, results in outs:
        ref = Ref(z)
        for c in results:
            anomalies, _ = check_case(c, ref)
            for a in anomalies[:1]:
                v = _violation(a, c, z)
                v['case'] = strip(c) | {'zone': z}
                found.append(v)
    found.sort(key=lambda v: len(json.dumps(v['case'])))
    return found
