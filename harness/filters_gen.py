"""filters_gen.py — input generators of the C17 check: argument spellings (valid streams, exhaustive
ranges, mutants, a malformed stream), filter expressions of bounded depth, instants on a grid over a
28-year calendar cycle plus boundary instants.  Pure Python; imports neither eascheduler nor whenever.

JSON encoding of argument values (HINT_NAME_OR_NR and beyond):
    int -> int      str -> str      list -> list      tuple -> {'t': [...]}      bool -> {'b': bool}
    float -> {'f': x}      None -> {'none': 1}      bytes -> {'bytes': [..]}      iterator -> {'iter': [...]}
"""
from __future__ import annotations

import random
from datetime import date, datetime, timezone

from harness.filters_oracle import DAY_NS, DOMS, MAXV, NS, REF_DAYS, REF_MONTHS, ref_local

# 28-year cycle: 2000-01-01 .. 2027-12-31 (10227 days; contains the century leap day 2000-02-29)
CYCLE_START_DAY = (date(2000, 1, 1) - date(1970, 1, 1)).days
CYCLE_DAYS = (date(2028, 1, 1) - date(2000, 1, 1)).days
CYCLE_START = CYCLE_START_DAY * DAY_NS

ZONES_QUICK = ['UTC', 'Europe/Berlin', 'America/Los_Angeles', 'Asia/Kolkata', 'Pacific/Auckland',
               'America/St_Johns', 'Pacific/Kiritimati']
ZONES_THOROUGH = ZONES_QUICK + ['Australia/Lord_Howe', 'Asia/Kathmandu', 'America/Sao_Paulo', 'Pacific/Chatham',
                                'Africa/Casablanca', 'Pacific/Pago_Pago', 'Europe/Dublin']

# white space below U+0250 (str.isspace)
WS = ['\t', '\n', '\x0b', '\x0c', '\r', '\x1c', '\x1d', '\x1e', '\x1f', ' ', '\x85', '\xa0']


def decode(x):
    if isinstance(x, dict):
        if 'b' in x:
            return bool(x['b'])
        if 't' in x:
            return tuple(decode(y) for y in x['t'])
        if 'f' in x:
            return float(x['f'])
        if 'none' in x:
            return None
        if 'bytes' in x:
            return bytes(x['bytes'])
        if 'iter' in x:
            return iter([decode(y) for y in x['iter']])
        raise ValueError(x)
    if isinstance(x, list):
        return [decode(y) for y in x]
    return x


def in_model(x) -> bool:
    """is the encoded value a pval of the Coq model (ints, booleans as ints, strings below U+0250, lists)?"""
    if isinstance(x, dict):
        if 'b' in x:
            return True
        if 't' in x:
            return all(in_model(y) for y in x['t'])
        return False
    if isinstance(x, list):
        return all(in_model(y) for y in x)
    if isinstance(x, str):
        return all(ord(c) < 0x250 for c in x)
    return isinstance(x, int)


def kind_of(x) -> str:
    if isinstance(x, dict):
        return next(iter(x))
    return type(x).__name__


# --------------------------------------------------------------------------------------------------
# spellings
def names_of(dom: str, n: int) -> list[str]:
    return {'weekdays': REF_DAYS, 'months': REF_MONTHS}.get(dom, {}).get(n, [])


def recase(rng: random.Random, s: str) -> str:
    m = rng.randrange(5)
    if m == 0:
        return s
    if m == 1:
        return s.upper()
    if m == 2:
        return s.title()
    if m == 3:
        return s.swapcase() if rng.random() < 0.5 else s[:1] + s[1:].upper()
    return ''.join(c.upper() if rng.random() < 0.5 else c for c in s)


def pad(rng: random.Random, s: str) -> str:
    if rng.random() < 0.55:
        return s
    l = ''.join(rng.choice(WS) for _ in range(rng.randrange(3)))
    r = ''.join(rng.choice(WS) for _ in range(rng.randrange(3)))
    return l + s + r


def atom(rng: random.Random, dom: str, n: int) -> str:
    names = names_of(dom, n)
    if names and rng.random() < 0.65:
        s = recase(rng, rng.choice(names))
    else:
        s = str(n)
        if rng.random() < 0.15:
            s = '0' * rng.randrange(1, 4) + s
    return pad(rng, s)


def item(rng: random.Random, dom: str) -> str:
    mx = MAXV[dom]
    a = rng.randint(1, mx)
    if rng.random() < 0.5:
        return atom(rng, dom, a)
    return atom(rng, dom, a) + '-' + atom(rng, dom, rng.randint(1, mx))


def valid_str(rng: random.Random, dom: str) -> str:
    return ','.join(item(rng, dom) for _ in range(rng.choice([1, 1, 1, 2, 2, 3, 4])))


def valid_value(rng: random.Random, dom: str, depth: int = 0):
    r = rng.random()
    if r < 0.25:
        if dom != 'days' and rng.random() < 0.05:
            return {'b': True}
        return rng.randint(1, MAXV[dom])
    if r < 0.8 or depth >= 2:
        return valid_str(rng, dom)
    vals = [valid_value(rng, dom, depth + 1) for _ in range(rng.randint(1, 3))]
    return {'t': vals} if rng.random() < 0.3 else vals


def valid_args(rng: random.Random, dom: str) -> list:
    return [valid_value(rng, dom) for _ in range(rng.choice([1, 1, 1, 2, 3]))]


def key_cases() -> list[dict]:
    """every table name in several casings and paddings, in its own and in the other domains"""
    out = []
    pads = [('', ''), (' ', ''), ('', ' '), ('\t', '\n'), ('\xa0\x1c', '\x85 ')]
    for dom, ref in (('weekdays', REF_DAYS), ('months', REF_MONTHS)):
        for n, names in ref.items():
            for nm in names:
                casings = {nm, nm.upper(), nm.title(), nm.swapcase(), nm[:1] + nm[1:].upper(),
                           ''.join(c.upper() if i % 2 else c for i, c in enumerate(nm))}
                for k, c in enumerate(sorted(casings)):
                    l, r = pads[k % len(pads)]
                    out.append({'dom': dom, 'args': [l + c + r], 'stream': 'keys'})
                for l, r in pads[1:]:
                    out.append({'dom': dom, 'args': [l + nm + r], 'stream': 'keys'})
                for other in DOMS:
                    if other != dom:
                        out.append({'dom': other, 'args': [nm], 'stream': 'keys-other-domain'})
    return out


def range_cases() -> list[dict]:
    """ALL ranges a-b of the three domains: numeric, and by name with the spelling rotating through the synonyms"""
    out = []
    for dom in DOMS:
        mx = MAXV[dom]
        for a in range(1, mx + 1):
            for b in range(1, mx + 1):
                out.append({'dom': dom, 'args': [f'{a}-{b}'], 'stream': 'ranges-numeric'})
                na, nb = names_of(dom, a), names_of(dom, b)
                if na:
                    sa, sb = na[(a + b) % len(na)], nb[(a * 3 + b) % len(nb)]
                    if (a + b) % 3 == 0:
                        sa, sb = sa.title(), sb.upper()
                    out.append({'dom': dom, 'args': [f'{sa}-{sb}'], 'stream': 'ranges-names'})
                    out.append({'dom': dom, 'args': [f'{a} - {sb}' if (a + b) % 2 else f'{sa}-{b}'],
                                'stream': 'ranges-mixed'})
    return out


MALFORMED_STR = ['', ' ', '-', 'a-', '-a', ',', '1,', ',1', '1,,2', '1--3', '1-2-3', '1 2', '+1', '-1', '1.0', '1_0', '0x1',
                 '0', '00', '8', '13', '32', '99', '100000000000000000000', '0-3', '3-0', '1-32', '5-', '-5', 'mo-', '-fr', 'mo--fr',
                 'xyz', 'mond', 'tues', 'febr', 'm o', 'mo.', 'mo;di', 'mo/fr', 'mo..fr', 'mo:fr', 'montags', 'sonnabend',
                 'janvier', 'sept', '\xb2', '1\xb2', '\xb9-\xb3', '\xb3', 'mo\x00', 'frı', 'İ', 'm\xf6', 'M\xc4R', 'M\xc4RZ', 'm\xe4rz-mai']
OUTSIDE_DOMAIN_STR = ['\u0663', '\uff11', '\u0967-\u0969', 'o\u212at', 'MO\u2003', '\u2003mo', 'mo\u3000-\u3000fr', '\xbd', '\u2460',
                      '\U0001d7d1', 'm\u00e4\u0280', '\u0250', 'ju\u0269']


def malformed_cases(rng: random.Random, n_mut: int) -> list[dict]:
    out = []
    for dom in DOMS:
        for s in MALFORMED_STR:
            out.append({'dom': dom, 'args': [s], 'stream': 'malformed-str'})
        for s in OUTSIDE_DOMAIN_STR:
            out.append({'dom': dom, 'args': [s], 'stream': 'outside-domain'})
        for v in [0, -1, MAXV[dom] + 1, 10 ** 20, {'b': False}, {'b': True}, {'f': 1.0}, {'f': 1.5}, {'f': 0.0}, {'none': 1},
                  [], [[]], [1, []], [[], 1], {'t': []}, [{'t': []}], ['']]:
            out.append({'dom': dom, 'args': [v], 'stream': 'malformed-values'})
        out.append({'dom': dom, 'args': [], 'stream': 'malformed-values'})
        out.append({'dom': dom, 'args': [1, 'x'], 'stream': 'malformed-values'})
        out.append({'dom': dom, 'args': [[1, 2], '2-'], 'stream': 'malformed-values'})
        out.append({'dom': dom, 'args': [{'bytes': [1, 2]}], 'stream': 'outside-domain'})
        out.append({'dom': dom, 'args': [{'bytes': []}], 'stream': 'outside-domain'})
        out.append({'dom': dom, 'args': [{'iter': []}], 'stream': 'outside-domain'})
        out.append({'dom': dom, 'args': [{'iter': [1, '2']}], 'stream': 'outside-domain'})
        # the CPython limit on digit strings
        out.append({'dom': dom, 'args': ['0' * 4299 + '1'], 'stream': 'long-digits'})
        out.append({'dom': dom, 'args': ['0' * 4300 + '1'], 'stream': 'long-digits'})
        out.append({'dom': dom, 'args': [' ' + '0' * 4298 + '1-' + '0' * 4300 + '2'], 'stream': 'long-digits'})
    alphabet = list(',-  0123456789') + list('mofrjanäÄMZ') + ['\t', '\xa0', '\xb2', 'x', '.', 'İ']
    for _ in range(n_mut):
        dom = rng.choice(DOMS)
        s = list(valid_str(rng, dom))
        for _k in range(rng.choice([1, 1, 2])):
            m = rng.randrange(4)
            pos = rng.randrange(len(s) + 1)
            if m == 0 and s:
                del s[min(pos, len(s) - 1)]
            elif m == 1:
                s.insert(pos, rng.choice(alphabet))
            elif m == 2 and s:
                s[min(pos, len(s) - 1)] = rng.choice(alphabet)
            else:
                s = s[:pos] + s[pos:pos + 2][::-1] + s[pos + 2:]
        v = ''.join(s)
        out.append({'dom': dom, 'args': [v] if rng.random() < 0.8 else [[v, rng.randint(0, MAXV[dom] + 1)]],
                    'stream': 'mutants'})
    return out


def parser_cases(rng: random.Random, tier: str) -> list[dict]:
    n_rand, n_mut = (700, 700) if tier == 'quick' else (6000, 6000)
    out = key_cases() + range_cases()
    for _ in range(n_rand):
        dom = rng.choice(DOMS)
        out.append({'dom': dom, 'args': valid_args(rng, dom), 'stream': 'random-valid'})
    out += malformed_cases(rng, n_mut)
    # the same valid spellings handed over as one-shot iterators (generator / map / iter(...)): judged by the oracle only
    for _ in range(n_rand // 3):
        dom = rng.choice(DOMS)
        args = valid_args(rng, dom)
        wrapped = [{'iter': a} if isinstance(a, list) and a and not any(isinstance(y, (list, dict)) for y in a) else a for a in args]
        if wrapped != args:
            out.append({'dom': dom, 'args': wrapped, 'stream': 'iterator'})
    for i, c in enumerate(out):
        c['builder'] = (i % 4 != 0)      # 3/4 through FilterBuilder.<dom>(*args), 1/4 through helper.get_<dom>(*args)
    return out


# --------------------------------------------------------------------------------------------------
# filter expressions
TIME_POOL = [0, 1, 8 * 3600 * NS, 8 * 3600 * NS + 30 * 60 * NS, 12 * 3600 * NS, 17 * 3600 * NS + 1, 23 * 3600 * NS + 3599 * NS + 999999999,
             6 * 3600 * NS + 123456789, 2 * 3600 * NS + 30 * 60 * NS, 3 * 3600 * NS, 20 * 3600 * NS + 15 * 60 * NS + 1000]


def gen_time(rng: random.Random) -> list:
    def bound():
        if rng.random() < 0.6:
            return rng.choice(TIME_POOL)
        r = rng.random()
        if r < 0.4:
            return rng.randrange(0, 86400) * NS
        if r < 0.7:
            return rng.randrange(0, 86400 * 10 ** 6) * 1000
        return rng.randrange(0, DAY_NS)
    r = rng.random()
    if r < 0.2:
        lo, hi = bound(), None
    elif r < 0.4:
        lo, hi = None, bound()
    else:
        lo, hi = bound(), bound()
        if lo > hi and rng.random() < 0.8:       # keep a share of empty windows (lower >= upper)
            lo, hi = hi, lo
    styles = []
    for b in (lo, hi):
        if b is None:
            styles.append(None)
        elif b % 1000 == 0 and rng.random() < 0.4:
            styles.append('pytime')
        else:
            styles.append(rng.choice(['str', 'time']))
    return ['time', lo, hi, styles]


def gen_leaf(rng: random.Random, day_hint: int | None = None) -> list:
    r = rng.random()
    if r < 0.3:
        return gen_time(rng)
    if r < 0.94:
        dom = rng.choice(DOMS)
        return ['set', dom, valid_args(rng, dom)]
    kind = rng.choice(['holidays', 'work_days', 'not_work_days'])
    days = sorted({CYCLE_START_DAY + rng.randrange(CYCLE_DAYS) for _ in range(rng.randint(0, 6))})
    return ['hol', kind, days]


def gen_expr(rng: random.Random, depth: int) -> list:
    """depth = number of combinator levels above the leaves (<= 3)"""
    if depth == 0:
        return gen_leaf(rng)
    r = rng.random()
    if r < 0.25:
        return ['not', gen_expr(rng, depth - 1)]
    n = rng.choice([0, 1, 2, 2, 3, 3, 4]) if depth == 1 else rng.choice([1, 2, 2, 3])
    members = [gen_expr(rng, rng.randrange(depth)) for _ in range(n)]
    if members and rng.random() < 0.7:
        members[0] = gen_expr(rng, depth - 1)
    return ['any' if r < 0.62 else 'all', members]


def expr_depth(e) -> int:
    if e[0] in ('any', 'all'):
        return 1 + max([expr_depth(x) for x in e[1]], default=0)
    if e[0] == 'not':
        return 1 + expr_depth(e[1])
    return 0


def expr_nodes(e):
    yield e
    if e[0] in ('any', 'all'):
        for x in e[1]:
            yield from expr_nodes(x)
    elif e[0] == 'not':
        yield from expr_nodes(e[1])


def gen_exprs(rng: random.Random, n: int) -> list:
    out = [['any', []], ['all', []], ['not', ['any', []]], ['not', ['all', []]]]
    while len(out) < n:
        out.append(gen_expr(rng, rng.choice([0, 1, 1, 2, 2, 3, 3])))
    # a few expressions whose construction must fail (malformed leaf somewhere inside)
    for bad in (['set', 'weekdays', ['mo-']], ['any', [['set', 'days', [1]], ['not', ['set', 'months', ['13']]]]],
                ['time', None, None, [None, None]], ['all', [['set', 'days', []]]]):
        out.append(bad)
    return out


# --------------------------------------------------------------------------------------------------
# instants
def local_to_instant(zone: str, local_ns: int, near: int) -> int:
    """an instant whose local reading in `zone` is local_ns, using the offset in force near `near`"""
    off = ref_local(zone, near)['off']
    i = local_ns - off * NS
    off2 = ref_local(zone, i)['off']
    if off2 != off:
        i = local_ns - off2 * NS
    return i


def gen_points(rng: random.Random, zone: str, exprs: list, tier: str) -> list:
    """-> [(expr index, instant ns, kind)]"""
    pts = []
    if tier == 'quick':
        step = 5 * DAY_NS + 18431 * NS + 123456789
    else:
        step = DAY_NS + 3661 * NS + 7
    phase = rng.randrange(step)
    n = len(exprs)
    k = 0
    t = CYCLE_START + phase
    end = CYCLE_START + CYCLE_DAYS * DAY_NS
    while t < end:
        pts.append((k % n, t, 'grid'))
        k += 1
        t += step
    grid = [p[1] for p in pts]
    # boundaries of the time filters: exactly at / 1 ns before / 1 ns after each bound, on a few days
    for ei, e in enumerate(exprs):
        bounds = [b for x in expr_nodes(e) if x[0] == 'time' for b in (x[1], x[2]) if b is not None]
        for b in bounds[:4]:
            base = rng.choice(grid)
            day = (base + ref_local(zone, base)['off'] * NS) // DAY_NS
            for d in (-1, 0, 1):
                pts.append((ei, local_to_instant(zone, day * DAY_NS + b + d, base), 'time-bound'))
    # local midnight, month ends, year ends, leap days
    specials = []
    for _ in range(20 if tier == 'quick' else 120):
        base = rng.choice(grid)
        day = (base + ref_local(zone, base)['off'] * NS) // DAY_NS
        for d in (-1, 0, 1):
            specials.append((local_to_instant(zone, day * DAY_NS + d, base), 'local-midnight'))
    for y in range(2000, 2028):
        months = range(1, 13) if tier != 'quick' else sorted(rng.sample(range(1, 13), 3) + [2, 12])
        for m in months:
            first = (date(y + (m == 12), m % 12 + 1, 1) - date(1970, 1, 1)).days      # first day of the next month
            near = first * DAY_NS
            specials.append((local_to_instant(zone, first * DAY_NS - 1, near), 'month-end'))
            specials.append((local_to_instant(zone, first * DAY_NS, near), 'month-start'))
            specials.append((local_to_instant(zone, first * DAY_NS - DAY_NS + rng.randrange(DAY_NS), near), 'month-last-day'))
    # instants that are Monday in UTC: Tuesday locally far east of Greenwich late in the UTC day,
    # Sunday locally west of Greenwich early in the UTC day
    monday0 = (date(2000, 1, 3) - date(1970, 1, 1)).days
    for _ in range(25 if tier == 'quick' else 150):
        d = monday0 + 7 * rng.randrange(CYCLE_DAYS // 7 - 1)
        for h in (0, 1, 3, 9, 11, 13, 15, 21, 23):
            specials.append((d * DAY_NS + h * 3600 * NS + rng.randrange(3600 * NS), 'utc-monday'))
    for j, (t, kind) in enumerate(specials):
        pts.append((j % n, t, kind))
    return pts


def utc_date(inst_ns: int) -> str:
    return datetime.fromtimestamp(inst_ns // NS, timezone.utc).isoformat()
