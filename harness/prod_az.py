"""prod_az.py — (subprocess side) C16 for the azimuth and elevation triggers: one get_next of SunAzimuthProducerCompare /
SunElevationProducerCompare at a location, under a time budget.  argv: lat lon target dt_ns budget_s [rising|setting]  ->  JSON ['ok', ns] | ['raise', name] | ['budget'],
seconds."""
import json
import signal
import sys
import time


class Budget(BaseException):
    pass


def _alarm(*_a):
    raise Budget()


def main() -> int:
    lat, lon, az = float(sys.argv[1]), float(sys.argv[2]), float(sys.argv[3])
    dt_ns, budget = int(sys.argv[4]), float(sys.argv[5])
    from whenever import Instant
    from eascheduler.errors.errors import InfiniteLoopDetectedError, LocationNotSetError
    from eascheduler.producers import prod_sun
    prod_sun.set_location(lat, lon, 0.0)
    if len(sys.argv) > 6:
        p = prod_sun.SunElevationProducerCompare(az, sys.argv[6])
    else:
        p = prod_sun.SunAzimuthProducerCompare(az)
    signal.signal(signal.SIGVTALRM, _alarm)
    signal.setitimer(signal.ITIMER_VIRTUAL, budget)
    t0 = time.perf_counter()
    try:
        try:
            r = ['ok', p.get_next(Instant.from_timestamp_nanos(dt_ns)).timestamp_nanos()]
        except InfiniteLoopDetectedError:
            r = ['raise', 'InfiniteLoopDetectedError']
        except LocationNotSetError:
            r = ['raise', 'LocationNotSetError']
        except Exception as e:  # noqa: BLE001
            r = ['raise', type(e).__name__]
        finally:
            signal.setitimer(signal.ITIMER_VIRTUAL, 0)
    except Budget:
        signal.setitimer(signal.ITIMER_VIRTUAL, 0)
        r = ['budget']
    json.dump([r, round(time.perf_counter() - t0, 2)], sys.stdout)
    return 0


if __name__ == '__main__':
    sys.exit(main())
