"""dst_coq.py — print C20 cases and sweep files as Coq terms (DstCases.dcase, Dst.*)."""
from __future__ import annotations

from harness.prod_coq import coq_tz, z

SK = {'skip': 'SkSkip', 'earlier': 'SkEarlier', 'later': 'SkLater', 'after': 'SkAfter'}
RP = {'skip': 'RpSkip', 'earlier': 'RpEarlier', 'later': 'RpLater', 'twice': 'RpTwice'}
HEADER = 'From EAS Require Import Base Civil Time Replace Dst DstCases DstFacts.\n'


def outcome(o) -> str:
    if o[0] == 'ok':
        return f'(Ok ({SK[o[1]]}, {RP[o[2]]}))'
    return f'(Raise {o[1]})'


def req(d) -> str:
    if d[0] == 'none':
        return 'None'
    if d[0] == 'bool':
        return f'(Some (RBool {"true" if d[1] else "false"}))'
    return f'(Some (RDate {z(d[1])} {z(d[2])}))'


def coq_case(year: int, d: dict) -> str:
    probes = '; '.join(f'({z(tod)}, [{"; ".join(outcome(o) for o in outs)}])' for tod, outs in d['probes'])
    return ('{| dc_year := %d; dc_both_before := %s; dc_untouched := %s; dc_first := %s;\n'
            '   dc_fwd := %s; dc_bwd := %s;\n   dc_probes := [%s];\n'
            '   dc_again := %s; dc_fwd_end := %s; dc_bwd_end := %s |}'
            % (year, outcome(d['both_before_setup']), 'true' if d['untouched_by_both'] else 'false',
               outcome(d['first']), req(d['fwd']), req(d['bwd']), probes,
               outcome(d['again']), req(d['fwd_end']), req(d['bwd_end'])))


def years_list(years) -> str:
    return '[' + '; '.join(str(y) for y in years) + ']'


def cases_file(table: dict, per_year: dict) -> str:
    """per_year: {year: runner output for that year} -> correspondence file of one zone"""
    ys = sorted(per_year, key=int)
    body = ';\n'.join(coq_case(int(y), per_year[y]) for y in ys)
    return (HEADER + f'Definition the_tz : tz := {coq_tz(table)}.\n'
            'Definition cases : list dcase := [\n' + body + '\n].\n'
            'Eval vm_compute in (mismatches the_tz cases).\n')


def debug_file(table: dict, year: int, d: dict) -> str:
    return (HEADER + f'Definition the_tz : tz := {coq_tz(table)}.\n'
            f'Definition c : dcase := {coq_case(year, d)}.\n'
            'Eval vm_compute in (case_model the_tz c).\n')


def sweep_file(table: dict, years) -> str:
    """one zone of the sweep: a lemma checked by ONE vm evaluation (at Qed)"""
    return (HEADER + f'Definition the_tz : tz := {coq_tz(table)}.\n'
            f'Definition years : list Z := {years_list(years)}.\n'
            'Lemma sweep : forallb (dst_sweep_each the_tz) years = true.\n'
            'Proof. vm_cast_no_check (eq_refl true). Qed.\n')


def sweep_diag_file(table: dict, years) -> str:
    return (HEADER + f'Definition the_tz : tz := {coq_tz(table)}.\n'
            f'Definition years : list Z := {years_list(years)}.\n'
            'Eval vm_compute in (wf_dst the_tz).\n'
            'Eval vm_compute in (filter (fun y => negb (dst_sweep_each the_tz y)) years).\n')


def excluded_file(table: dict) -> str:
    """a zone outside the domain of the theorem: the exclusion is itself checked"""
    return (HEADER + f'Definition the_tz : tz := {coq_tz(table)}.\n'
            'Lemma excluded : wf_dst the_tz = false.\n'
            'Proof. vm_cast_no_check (eq_refl false). Qed.\n')


def aggregate_file(modules: list[str], years, lib: str) -> str:
    req_ = '\n'.join(f'From {lib} Require {m}.' for m in modules)
    zones = '[' + '; '.join(f'{m}.the_tz' for m in modules) + ']'
    proof = ''.join(f'(Forall_cons _ {m}.sweep ' for m in modules) + '(Forall_nil _)' + ')' * len(modules)
    return (HEADER + req_ + '\n'
            f'Definition zones : list tz := {zones}.\n'
            f'Definition years : list Z := {years_list(years)}.\n'
            '(* the sweep: every zone of this run, every current year of this run *)\n'
            'Theorem Zones_sweep : Forall (fun z => forallb (dst_sweep_each z) years = true) zones.\n'
            f'Proof. exact {proof}. Qed.\n'
            'Theorem Zones_sound : forall z year, In z zones -> In year years ->\n'
            '  forall tod, 0 <= tod < DAY -> accepted z year tod ->\n'
            '  forall day, in_year year day -> exists i, candidates z (day * DAY + tod) = [i].\n'
            'Proof. exact (sweep_lift zones years Zones_sweep). Qed.\n'
            'Theorem Zones_sound_each : forall z year, In z zones -> In year years ->\n'
            '  forall tod, 0 <= tod < DAY ->\n'
            '  (accepted_fwd_given z year tod -> forall day, in_year year day -> (length (candidates z (day * DAY + tod)) <= 1)%nat) /\\\n'
            '  (accepted_bwd_given z year tod -> forall day, in_year year day -> candidates z (day * DAY + tod) <> []).\n'
            'Proof. exact (sweep_lift_each zones years Zones_sweep). Qed.\n'
            'Print Assumptions Zones_sweep.\nPrint Assumptions Zones_sound.\nPrint Assumptions Zones_sound_each.\n')
