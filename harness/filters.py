"""filters.py — check of property C17 (filter algebra and range syntax).

Implementation side: one subprocess per time zone (TZ=<zone>, LC_ALL=C) that builds the generated filter
expressions through the public FilterBuilder API and evaluates them on the generated instants, plus one
subprocess for the argument parser.  Model side: the same inputs, with what the implementation did, are
written as FilterCases.v terms and evaluated inside Coq.  Oracle side: harness/filters_oracle.py
(zoneinfo-local datetimes + a reference parser written from the property text)."""
from __future__ import annotations

import collections
import json
import random
import re
import subprocess
from concurrent.futures import ThreadPoolExecutor
from pathlib import Path

from harness import filters_coq as C
from harness import filters_gen as G
from harness import filters_oracle as O
from lib import coqrun

VERIF = Path(__file__).resolve().parent.parent

COQ_TARGETS = ['theories/FilterCases.vo']

ASSUMPTIONS = {'C17': [
    'the utc offset of every instant is read from whenever (SystemDateTime.offset) and handed to the model; the '
    'time-zone table itself is not part of this property (the oracle recomputes the local reading with zoneinfo)',
    'strings range over code points below U+0250; str.isspace / isdigit / int / lower are modelled explicitly for '
    'that range and compared with the running Python for every code point of it at every run',
    'name tables as built under LC_ALL=C (the locale names coincide with the English ones); the model tables are '
    'compared with the real DAY_NAMES / MONTH_NAMES at every run',
    'time bounds reach the model as nanoseconds of the day; parsing "HH:MM:SS" strings is whenever\'s',
    'argument values are ints (bool as int), strings and nested lists/tuples; floats, None, bytes, iterators are '
    'exercised against the Python oracle only',
]}
TRUSTED_EXTRA = {'C17': [
    'harness/filters_oracle.py: zoneinfo + datetime give the local date/time of an instant; the hand-written '
    'English/German name list and reference parser state what a spelling denotes',
]}

RULE = ('a filter evaluation (zone, expression, instant) is non-trivial iff the expression has at least one combinator '
        'or a leaf given by a string spelling; a parser call (domain, arguments, entry point) is non-trivial iff an '
        'argument is a string or a list; counted once per distinct input')

F_SHARD_POINTS = 2500      # evaluation points per generated Coq file
L_SHARD = 3000
P_SHARD = 500
N_EXPRS = {'quick': 50, 'thorough': 260}


# --------------------------------------------------------------------------------------------------
def _impl(mode: str, job: dict, scratch: Path, tag: str, zone: str = 'UTC') -> dict:
    inp = scratch / f'impl_in_{tag}.json'
    outp = scratch / f'impl_out_{tag}.json'
    inp.write_text(json.dumps(job))
    env = {'PYTHONPATH': f'{coqrun.REPO}/src:{VERIF}', 'PYTHONHASHSEED': '0', 'PATH': '/usr/bin:/bin',
           'TZ': zone, 'LC_ALL': 'C'}
    r = subprocess.run(['/venv/bin/python', '-u', '-m', 'harness.filters_runner', mode, str(inp), str(outp)],
                       cwd=VERIF, env=env, capture_output=True, text=True, timeout=3000)
    if r.returncode != 0:
        raise RuntimeError(f'implementation runner failed ({tag}): ' + r.stderr[-3000:])
    return json.loads(outp.read_text())


def _tag(zone: str) -> str:
    return re.sub(r'\W', '_', zone)


def _nontrivial_expr(e) -> bool:
    return e[0] in ('any', 'all', 'not') or (e[0] == 'set' and any(not isinstance(a, int) for a in e[2]))


def _nontrivial_args(args) -> bool:
    return any(isinstance(a, (str, list)) or (isinstance(a, dict) and 't' in a) for a in args)


# --------------------------------------------------------------------------------------------------
def check_filters(jobs: list[dict], scratch: Path, model_ok: bool, res: dict) -> None:
    """jobs: [{'zone', 'exprs', 'points': [(expr index, instant, kind)]}]"""
    with ThreadPoolExecutor(max_workers=8) as ex:
        outs = list(ex.map(lambda j: _impl('eval', {'exprs': j['exprs'], 'points': [[p[0], p[1]] for p in j['points']]},
                                           scratch, 'eval_' + _tag(j['zone']), j['zone']), jobs))
    dist = res['distribution']
    d_nodes, d_depth, d_kinds, d_zone, d_off, d_obs, d_leafspell = (collections.Counter() for _ in range(7))
    d_build = collections.Counter()
    d_hits = collections.Counter()
    crossday = collections.Counter()
    seen = set()
    files: list[tuple[Path, list]] = []      # (file, [(job index, expr index, [point indices])])
    lrows: list[tuple] = []
    cur: list[str] = []
    cur_meta: list = []
    cur_n = 0

    def flush():
        nonlocal cur, cur_meta, cur_n
        if cur:
            p = scratch / f'fcases_{len(files)}.v'
            p.write_text(C.fcases_file(cur))
            files.append((p, cur_meta))
        cur, cur_meta, cur_n = [], [], 0

    for ji, (job, out) in enumerate(zip(jobs, outs)):
        zone = job['zone']
        for n in out['notes']:
            res['spec_violations'].append({'what': 'time argument does not reach the filter unchanged', 'case': n,
                                           'observed': n[2], 'op_index': 0})
        by_expr = collections.defaultdict(list)
        for pi, (ei, inst, kind) in enumerate(job['points']):
            by_expr[ei].append(pi)
        for ei, e in enumerate(job['exprs']):
            built = out['built'][ei]
            d_depth[G.expr_depth(e)] += 1
            for node in G.expr_nodes(e):
                d_nodes[node[0] if node[0] != 'set' else node[1]] += 1
                if node[0] == 'hol':
                    d_nodes[node[1]] += 1
                if node[0] == 'set':
                    for a in node[2]:
                        d_leafspell[G.kind_of(a)] += 1
            # construction: the oracle's view
            try:
                O.ref_build(e)
                exp_built = True
            except O.Reject:
                exp_built = False
            d_build['built' if built is None else built[0]] += 1
            case0 = {'kind': 'filter', 'zone': zone, 'expr': e}
            if exp_built != (built is None):
                res['spec_violations'].append({
                    'what': ('an expression with a malformed leaf was built' if built is None else
                             f'a well-formed expression was refused: {built}'),
                    'case': case0, 'observed': built, 'op_index': 0})
            elif built is not None and built[0] not in ('EValueError', 'ETypeError'):
                res['spec_violations'].append({'what': f'construction failed with {built[0]} (not a ValueError/TypeError)',
                                               'case': case0, 'observed': built, 'op_index': 0})
            pis = by_expr.get(ei, [])
            pts = []
            locs = {}
            for pi in pis:
                _, inst, kind = job['points'][pi]
                off, obs, local = out['points'][pi]
                loc = O.ref_local(zone, inst)
                locs[pi] = loc
                res['evaluations'] += 1
                d_kinds[kind] += 1
                d_zone[zone] += 1
                d_off[off] += 1
                if kind == 'time-bound':
                    for node in G.expr_nodes(e):
                        if node[0] == 'time':
                            for which, b in (('lower', node[1]), ('upper', node[2])):
                                if b is not None and -1 <= loc['tod'] - b <= 1:
                                    d_hits[f'{which} bound {["1 ns before", "exactly at", "1 ns after"][loc["tod"] - b + 1]}'] += 1
                elif kind == 'local-midnight' and loc['tod'] in (0, 1, O.DAY_NS - 1):
                    d_hits[{0: 'local midnight exactly', 1: '1 ns after local midnight'}.get(loc['tod'], '1 ns before local midnight')] += 1
                elif kind in ('month-end', 'month-start') and loc['tod'] in (0, O.DAY_NS - 1):
                    d_hits['last ns of a month' if loc['tod'] else 'first ns of a month'] += 1
                uwd = O.utc_weekday(inst)
                if uwd != loc['wd']:
                    crossday['utc weekday != local weekday'] += 1
                    if uwd == 1 and loc['wd'] == 2:
                        crossday['Monday in UTC, Tuesday locally'] += 1
                    if uwd == 1 and loc['wd'] == 7:
                        crossday['Monday in UTC, Sunday locally'] += 1
                key = (zone, json.dumps(e), inst)
                if key not in seen and _nontrivial_expr(e):
                    res['distinct_nontrivial'] += 1
                seen.add(key)
                case = {'kind': 'filter', 'zone': zone, 'expr': e, 'inst': inst, 'point_kind': kind}
                if off != loc['off']:
                    res['spec_violations'].append({
                        'what': f'utc offset used by the implementation ({off} s) is not the zone\'s offset ({loc["off"]} s)',
                        'case': case, 'observed': off, 'op_index': 0})
                if local != [loc['y'], loc['m'], loc['d'], loc['wd'], loc['tod']]:
                    res['spec_violations'].append({'what': 'local date/time of the instant differs from zoneinfo',
                                                   'case': case, 'observed': local, 'op_index': 0})
                lrows.append((off, inst, *local))
                if built is not None:
                    continue
                d_obs[str(obs)] += 1
                if not isinstance(obs, bool):
                    res['spec_violations'].append({'what': f'allow() did not answer with a bool: {obs}', 'case': case,
                                                   'observed': obs, 'op_index': 0})
                    continue
                if exp_built:
                    exp = O.ref_eval(e, loc)
                    if exp != obs:
                        res['spec_violations'].append({
                            'what': f'filter answered {obs}, the property demands {exp} '
                                    f'(local {loc["y"]}-{loc["m"]:02d}-{loc["d"]:02d} weekday {loc["wd"]} tod {loc["tod"]} ns)',
                            'case': case, 'observed': obs, 'op_index': 0})
                pts.append((off, inst, obs, pi))
            if not model_ok:
                continue

            def hol_allowed(node, locs=locs):
                hol = set(node[2])
                days = {l['daynr'] + d for l in locs.values() for d in (-1, 0, 1)}
                return sorted(d for d in days if O.is_working_day(d, hol))
            if any(x[0] == 'set' and not all(G.in_model(a) for a in x[2]) for x in G.expr_nodes(e)):
                continue
            cur.append(C.fcase(e, None if built is None else built[0], [p[:3] for p in pts], hol_allowed))
            cur_meta.append((ji, ei, [p[3] for p in pts]))
            cur_n += len(pts) + 5
            if cur_n >= F_SHARD_POINTS:
                flush()
            if (len(res['samples']) < 2 and G.expr_depth(e) >= 2 and pts
                    and sum(1 for x in G.expr_nodes(e) if x[0] in ('set', 'time')) >= 2):
                res['samples'].append({'zone': zone, 'expression': e, 'instant_ns': pts[0][1], 'utc': G.utc_date(pts[0][1]),
                                       'offset_s': pts[0][0], 'allow': pts[0][2]})
    flush()
    dist['filter_nodes'] = dict(d_nodes)
    dist['expression_depth'] = {str(k): v for k, v in sorted(d_depth.items())}
    dist['leaf_argument_kinds'] = dict(d_leafspell)
    dist['construction'] = dict(d_build)
    dist['instant_kinds'] = dict(d_kinds)
    dist['evaluations_per_zone'] = dict(d_zone)
    dist['utc_offsets_seen_s'] = {str(k): v for k, v in sorted(d_off.items())}
    dist['allow_answers'] = dict(d_obs)
    dist['boundary_instants_hit'] = dict(d_hits)
    dist['weekday_shift_against_utc'] = dict(crossday)
    dist['cycle'] = '2000-01-01 .. 2027-12-31 (10227 days)'
    if not model_ok:
        return
    lfiles = []
    for s in range(0, len(lrows), L_SHARD):
        p = scratch / f'lcases_{s // L_SHARD}.v'
        p.write_text(C.lcases_file(lrows[s:s + L_SHARD]))
        lfiles.append(p)
    meta = {p: m for p, m in files}
    for p, rc, outp in coqrun.eval_cases([p for p, _ in files] + lfiles):
        txt = coqrun.parse_eval_list(outp) if rc == 0 else None
        if txt is None:
            res['corr_failures'].append({'file': p.name, 'error': outp[-1500:]})
            continue
        if p in meta:
            for ci, k in coqrun.parse_pairs(txt):
                ji, ei, pis = meta[p][ci]
                job = jobs[ji]
                e = job['exprs'][ei]
                inst = job['points'][pis[k]][1] if pis else None
                res['corr_failures'].append({'case': {'kind': 'filter', 'zone': job['zone'], 'expr': e, 'inst': inst},
                                             'implementation': outs[ji]['points'][pis[k]] if pis else outs[ji]['built'][ei],
                                             'file': p.name, 'case_index': ci, 'point_index': k})
        else:
            base = int(p.stem.split('_')[1]) * L_SHARD
            for i in coqrun.parse_nats(txt):
                res['corr_failures'].append({'what': 'calendar fields: Civil.v vs whenever', 'row': lrows[base + i]})
    res['extra']['calendar_rows_compared_with_whenever'] = len(lrows)


# --------------------------------------------------------------------------------------------------
def check_parser(cases: list[dict], scratch: Path, model_ok: bool, res: dict) -> None:
    out = _impl('parse', {'cases': cases}, scratch, 'parse')
    dist = res['distribution']
    d_stream, d_dom, d_out, d_len, d_argk, d_entry = (collections.Counter() for _ in range(6))
    observations = []
    seen = set()
    model_cases = []
    for c, r in zip(cases, out['results']):
        res['evaluations'] += 1
        d_stream[c['stream']] += 1
        d_dom[c['dom']] += 1
        d_entry['FilterBuilder.' + c['dom'] if c['builder'] else 'helper.get_' + c['dom']] += 1
        for a in c['args']:
            d_argk[G.kind_of(a)] += 1
            if isinstance(a, str):
                d_len[min(len(a) // 5 * 5, 40)] += 1
        obs = r['ok'] if 'ok' in r else r['err']
        try:
            exp = O.ref_values(c['dom'], [G.decode(a) for a in c['args']])
        except O.Reject:
            exp = None
        tag = ('accepted' if 'ok' in r else r['err']) + ' / ' + ('denotes a set' if exp is not None else 'denotes nothing')
        d_out[f'{c["stream"]}: {tag}'] += 1
        key = json.dumps([c['dom'], c['args'], c['builder']])
        if key not in seen and _nontrivial_args(c['args']):
            res['distinct_nontrivial'] += 1
        seen.add(key)
        case = {'kind': 'parse', 'dom': c['dom'], 'args': c['args'], 'builder': c['builder']}
        outside = not all(G.in_model(a) for a in c['args'])
        viol = None
        if 'ok' in r:
            if not isinstance(r['ok'], list) or (r['ok'] and not isinstance(r['ok'][0], int)):
                viol = f'result is not a set of ints: {r["ok"]}'
            elif exp is None:
                viol = f'a spelling that denotes no set was accepted as {r["ok"]}'
            elif r['ok'] != exp:
                viol = f'spelling denotes {exp} but was read as {r["ok"]}'
            if 'unsorted' in r:
                viol = f'result is not sorted and duplicate-free: {r["unsorted"]}'
        else:
            if exp is not None:
                viol = f'spelling denotes {exp} but was rejected with {r["err"]}: {r.get("msg")}'
            elif r['err'] not in ('EValueError', 'ETypeError'):
                viol = f'rejected with {r["err"]} (neither ValueError nor TypeError): {r.get("msg")}'
        if viol and outside and c['stream'] != 'iterator':
            observations.append({'args': c['args'], 'dom': c['dom'], 'observed': obs, 'note': viol})
        elif viol:
            res['spec_violations'].append({'what': viol, 'case': case, 'observed': obs, 'op_index': 0})
        if 'types' in r and len(observations) < 40:
            observations.append({'args': c['args'], 'dom': c['dom'], 'observed': obs,
                                 'note': f'returned list holds {r["types"]} objects'})
        if not outside:
            model_cases.append(dict(c, obs=obs))
            if len(res['samples']) < 4 and c['stream'] in ('random-valid', 'mutants') and len(json.dumps(c['args'])) > 25:
                res['samples'].append({'domain': c['dom'], 'arguments': c['args'], 'result': obs,
                                       'entry': 'FilterBuilder' if c['builder'] else 'helper'})
    dist['parser_streams'] = dict(d_stream)
    dist['parser_domains'] = dict(d_dom)
    dist['parser_entry_points'] = dict(d_entry)
    dist['parser_argument_kinds'] = dict(d_argk)
    dist['parser_string_lengths'] = {f'{k}+': v for k, v in sorted(d_len.items())}
    dist['parser_outcomes_by_stream'] = dict(sorted(d_out.items()))
    res['extra']['observations_not_counted_as_violations'] = observations[:40]
    res['extra']['locale_of_the_implementation_process'] = out['locale']

    # name tables against the hand-written list of the oracle
    for dom, items, ref in (('weekdays', out['day_names'], O.REF_NAMES['weekdays']),
                            ('months', out['month_names'], O.REF_NAMES['months'])):
        real = dict(items)
        for k, v in ref.items():
            if real.get(k) != v:
                res['spec_violations'].append({'what': f'name {k!r} must denote {v}, table has {real.get(k)}',
                                               'case': {'kind': 'table', 'dom': dom, 'key': k}, 'observed': real.get(k),
                                               'op_index': 0})
        extra = sorted(set(real) - set(ref))
        if extra:
            res['extra'][f'{dom}_names_beyond_english_german'] = extra
        bad = [k for k in real if ',' in k or '-' in k or k != k.strip() or k.isdigit() or not k]
        if bad:
            res['spec_violations'].append({'what': f'table keys that the range syntax cannot express: {bad}',
                                           'case': {'kind': 'table', 'dom': dom}, 'observed': bad, 'op_index': 0})
    dist['name_table_sizes'] = {'weekdays': len(out['day_names']), 'months': len(out['month_names'])}
    if not model_ok:
        return
    files = []
    for s in range(0, len(model_cases), P_SHARD):
        p = scratch / f'pcases_{s // P_SHARD}.v'
        p.write_text(C.pcases_file(model_cases[s:s + P_SHARD]))
        files.append(p)
    tp = scratch / 'tables_0.v'
    tp.write_text(C.tables_file({'weekdays': out['day_names'], 'months': out['month_names']}, out['chars']))
    for p, rc, outp in coqrun.eval_cases(files + [tp]):
        if rc != 0:
            res['corr_failures'].append({'file': p.name, 'error': outp[-1500:]})
            continue
        if p == tp:
            flat = ' '.join(outp.split())
            ms = re.findall(r'= (\[[^\]]*\]) : list nat', flat)
            if len(ms) != 2:
                res['corr_failures'].append({'file': p.name, 'error': 'cannot parse: ' + flat[-400:]})
                continue
            for i in coqrun.parse_nats(ms[0]):
                res['corr_failures'].append({'what': 'name table of the model differs from the real dict',
                                             'table': ['weekdays', 'months'][i]})
            for i in coqrun.parse_nats(ms[1]):
                res['corr_failures'].append({'what': 'isspace/isdigit/int/lower of the model differs from Python',
                                             'code_point': out['chars'][i]})
            continue
        txt = coqrun.parse_eval_list(outp)
        if txt is None:
            res['corr_failures'].append({'file': p.name, 'error': 'cannot parse: ' + outp[-400:]})
            continue
        base = int(p.stem.split('_')[1]) * P_SHARD
        for i in coqrun.parse_nats(txt):
            c = model_cases[base + i]
            dbg = scratch / f'debug_p_{base + i}.v'
            dbg.write_text(C.debug_pcase('{| pc_dom := %s; pc_builder := %s; pc_args := %s; pc_obs := %s |}' % (
                C.DOM[c['dom']], C.boolc(c['builder']), C.pvals(c['args']), C.result_list(c['obs']))))
            _, dout = coqrun.coqc_file(dbg)
            res['corr_failures'].append({'case': {'kind': 'parse', 'dom': c['dom'], 'args': c['args'], 'builder': c['builder']},
                                         'implementation': c['obs'], 'model_vs_impl_coq': ' '.join(dout.split())[-1500:]})
    res['extra']['code_points_compared_with_python'] = len(out['chars'])
    res['extra']['parser_cases_evaluated_in_coq'] = len(model_cases)


# --------------------------------------------------------------------------------------------------
def _new_result() -> dict:
    return {'evaluations': 0, 'distinct_nontrivial': 0, 'rule': RULE, 'samples': [], 'distribution': {},
            'corr_failures': [], 'spec_violations': [], 'extra': {}}


def _filter_jobs(rng: random.Random, tier: str) -> list[dict]:
    zones = G.ZONES_QUICK if tier == 'quick' else G.ZONES_THOROUGH
    jobs = []
    for z in zones:
        exprs = G.gen_exprs(rng, N_EXPRS[tier])
        jobs.append({'zone': z, 'exprs': exprs, 'points': G.gen_points(rng, z, exprs, tier)})
    return jobs


def run(prop: str, tier: str, seed: int, scratch: Path, replay=None, model_ok=True) -> dict:
    rng = random.Random(f'{prop}-{seed}')
    res = _new_result()
    if replay:
        case = json.loads(Path(replay).read_text())['case']
        if case.get('kind') == 'filter':
            pts = [(0, case['inst'], 'replay')] if case.get('inst') is not None else []
            check_filters([{'zone': case['zone'], 'exprs': [case['expr']], 'points': pts}], scratch, model_ok, res)
        else:
            check_parser([{'dom': case['dom'], 'args': case['args'], 'builder': case.get('builder', True),
                           'stream': 'replay'}], scratch, model_ok, res)
        return res
    jobs = _filter_jobs(rng, tier)
    pcases = G.parser_cases(rng, tier)
    with ThreadPoolExecutor(max_workers=2) as ex:
        f1 = ex.submit(check_filters, jobs, scratch, model_ok, res)
        rp = _new_result()
        f2 = ex.submit(check_parser, pcases, scratch, model_ok, rp)
        f1.result()
        f2.result()
    for k in ('evaluations', 'distinct_nontrivial'):
        res[k] += rp[k]
    for k in ('samples', 'corr_failures', 'spec_violations'):
        res[k] += rp[k]
    res['distribution'].update(rp['distribution'])
    res['extra'].update(rp['extra'])
    res['distribution']['zones'] = [j['zone'] for j in jobs]
    if not model_ok:
        res['corr_failures'].append({'error': 'model does not build'})
    res['extra']['compared'] = ('construction outcome and allow() of every (expression, instant); year/month/day/weekday/'
                                'time-of-day of every instant; result set or exception of every parser call; both name '
                                'tables; isspace/isdigit/int/lower of every code point below U+0250')
    return res


def search(prop: str, seed: int, scratch: Path) -> list:
    """violation search on the implementation alone: the thorough generators with the oracles, no Coq"""
    rng = random.Random(f'search-{prop}-{seed}')
    res = _new_result()
    check_filters(_filter_jobs(rng, 'thorough'), scratch, False, res)
    check_parser(G.parser_cases(rng, 'thorough'), scratch, False, res)
    out = res['spec_violations']
    out.sort(key=lambda v: len(json.dumps(v['case'])))
    return out


def match_known(prop: str, v: dict, known: list) -> str | None:
    return None


def replay_known(prop: str, f: dict, scratch: Path):
    if 'case' not in f:
        return None
    res = _new_result()
    case = f['case']
    if case.get('kind') == 'filter':
        pts = [(0, case['inst'], 'replay')] if case.get('inst') is not None else []
        check_filters([{'zone': case['zone'], 'exprs': [case['expr']], 'points': pts}], scratch, False, res)
    else:
        check_parser([{'dom': case['dom'], 'args': case['args'], 'builder': case.get('builder', True),
                       'stream': 'replay'}], scratch, False, res)
    # inputs outside the model's value domain (iterators, bytes, code points >= U+0250) are reported as
    # observations by run(); a pinned finding about such an input still reproduces when the oracle objects
    obs = [o for o in res['extra'].get('observations_not_counted_as_violations', []) if 'denotes' in o.get('note', '')]
    return bool(res['spec_violations'] or obs)
