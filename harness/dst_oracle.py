"""dst_oracle.py — reference decision for C20 that shares nothing with the Coq model, the extracted tables or
`whenever`: the standard library's zoneinfo, scanned day by day.

A wall-clock time on a date is
  'unique'   if exactly one instant shows it,
  'skipped'  if none does  (fold=0 and fold=1 give different offsets and the round trip through UTC moves it),
  'repeated' if two do     (fold=0 and fold=1 give different offsets and both round-trip).
datetime has microsecond resolution: a time of day in ns is truncated to us, which stays on the same side of
every transition (transitions are on whole seconds)."""
from __future__ import annotations

import datetime as dt
from zoneinfo import ZoneInfo

UTC = dt.timezone.utc
NS_US = 1000
DAY_NS = 86400 * 10**9


def classify(zi: ZoneInfo, date: dt.date, tod_ns: int) -> str:
    us = tod_ns // NS_US
    naive = dt.datetime(date.year, date.month, date.day) + dt.timedelta(microseconds=us)
    a = naive.replace(tzinfo=zi, fold=0)
    b = naive.replace(tzinfo=zi, fold=1)
    if a.utcoffset() == b.utcoffset():
        return 'unique'
    back = a.astimezone(UTC).astimezone(zi).replace(tzinfo=None)
    return 'repeated' if back == naive else 'skipped'


def scan_year(zone: str, year: int, tods: list[int]) -> dict:
    """-> {tod: [[date iso, 'skipped'|'repeated'], ...]} for the tods that are not unique on every day of the year"""
    zi = ZoneInfo(zone)
    out: dict[int, list] = {}
    d = dt.date(year, 1, 1)
    one = dt.timedelta(days=1)
    while d.year == year:
        for tod in tods:
            k = classify(zi, d, tod)
            if k != 'unique':
                out.setdefault(tod, []).append([d.isoformat(), k])
        d += one
    return out


def judge(zone: str, year: int, ydata: dict) -> tuple[list, dict]:
    """apply the property to what the implementation did in one (zone, current year).
    -> (violations [{'what', 'case', 'observed'}], stats)"""
    bad = []
    stats = {'accepted': 0, 'rejected': 0, 'rejected_although_unaffected': 0, 'affected_probes': 0}
    if 'crash' in ydata:
        return [{'what': f'the runner crashed: {ydata["crash"]}', 'case': {'zone': zone, 'year': year, 'tod': 0},
                 'observed': ydata['crash']}], stats
    probes = ydata['probes']
    tods = sorted({tod for tod, _ in probes})
    hits = scan_year(zone, year, tods)

    def case(tod, which):
        return {'zone': zone, 'year': year, 'tod': tod, 'policies': which}

    for o in (ydata['both_before_setup'],):
        if o != ['ok', 'later', 'twice', True]:
            bad.append({'what': 'both policies given but not returned verbatim', 'case': case(12 * 3600 * 10**9, 'fb'),
                        'observed': o})
    for tod, (nn, fn, nb, fb) in probes:
        days = hits.get(tod, [])
        skipped = [d for d, k in days if k == 'skipped']
        repeated = [d for d, k in days if k == 'repeated']
        if days:
            stats['affected_probes'] += 1
        for which, o in (('nn', nn), ('fn', fn), ('nb', nb), ('fb', fb)):
            if o[0] == 'raise' and o[1] != 'EValueError':
                bad.append({'what': f'rejected with {o[2]} instead of a ValueError', 'case': case(tod, which), 'observed': o})
        if fb != ['ok', 'later', 'twice', True]:
            bad.append({'what': 'both policies given but not returned verbatim', 'case': case(tod, 'fb'), 'observed': fb})
        if nn[0] == 'ok':
            stats['accepted'] += 1
            if days:
                bad.append({'what': f'accepted without policy although the time is {days[0][1]} on {days[0][0]}',
                            'case': case(tod, 'nn'), 'observed': {'outcome': nn, 'days': days[:4]}})
            if nn[1:3] != ['after', 'earlier']:
                bad.append({'what': 'accepted without policy but the defaults are not AFTER / EARLIER',
                            'case': case(tod, 'nn'), 'observed': nn})
        else:
            stats['rejected'] += 1
            if not days:
                stats['rejected_although_unaffected'] += 1
        if fn[0] == 'ok':
            if repeated:
                bad.append({'what': f'accepted with clock_forward only although the time is repeated on {repeated[0]}',
                            'case': case(tod, 'fn'), 'observed': {'outcome': fn, 'days': days[:4]}})
            if fn[1:3] != ['later', 'earlier']:
                bad.append({'what': 'clock_forward given: wrong pair returned', 'case': case(tod, 'fn'), 'observed': fn})
        if nb[0] == 'ok':
            if skipped:
                bad.append({'what': f'accepted with clock_backward only although the time is skipped on {skipped[0]}',
                            'case': case(tod, 'nb'), 'observed': {'outcome': nb, 'days': days[:4]}})
            if nb[1:3] != ['after', 'twice']:
                bad.append({'what': 'clock_backward given: wrong pair returned', 'case': case(tod, 'nb'), 'observed': nb})
    # the public entry points must decide like check_dst_handling
    of = {tod: dict(zip(('nn', 'fn', 'nb', 'fb'), outs)) for tod, outs in probes}
    for entry in ydata.get('api', []):
        tod, kind, o = entry[:3]
        variant = entry[3] if len(entry) > 3 else 'nn'
        want = of.get(tod, {}).get(variant) if variant != 'dd' else ['ok', 'after', 'earlier', True]
        if want is not None and (o[0], o[1], o[2] if o[0] == 'ok' else '') != (want[0], want[1], want[2] if want[0] == 'ok' else ''):
            bad.append({'what': f'TriggerBuilder {kind}() [{variant}] decides differently from check_dst_handling',
                        'case': case(tod, variant), 'observed': {'api': o, 'check': want}})
        if variant == 'nn' and o[0] == 'ok' and hits.get(tod):
            d0 = hits[tod][0]
            bad.append({'what': f'{kind}() accepted without policy although the time is {d0[1]} on {d0[0]}',
                        'case': case(tod, 'nn'), 'observed': {'outcome': o, 'days': hits[tod][:4]}})
    return bad, stats
