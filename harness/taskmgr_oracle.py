"""taskmgr_oracle.py — the property text of C11 / C12 decided on the implementation's own observations.
Independent of the Coq model: only what harness/taskmgr_impl.py saw of the real managers is used
(manager.task, manager.queue, manager.tasks, inspect.getcoroutinestate, the loop's ready queue, the
entry/exit log of the instrumented bodies, and one record per manager.create_task call).

Every function returns a list of (event index, message)."""
from __future__ import annotations


def _code(x: int) -> int:
    return x % 16


def _live(p: int) -> bool:          # a task exists and its done-callbacks have not run
    return 3 <= p <= 11


def _conservation(r, bad) -> None:
    seen_enter: dict[int, int] = {}
    for kind, cid, evi in r['log']:
        if kind == 'enter':
            if cid in seen_enter:
                bad.append((evi, f'coroutine {cid} was entered twice'))
            seen_enter[cid] = evi
    order: list[int] = []
    for i, o in enumerate(r['obs']):
        n = len(o['cids'])
        # submission order as the harness issued it
        order = _order(r, i)
        if len(order) != n:
            bad.append((i, 'observation does not cover every submitted coroutine'))
            continue
        if len(set(o['started'])) != len(o['started']):
            bad.append((i, f'a coroutine was given two tasks: {o["started"]}'))
        if len(set(o['entlog'])) != len(o['entlog']):
            bad.append((i, f'a body ran twice: {o["entlog"]}'))
        for cid, x, st in zip(order, o['cids'], o['corostate']):
            p = _code(x)
            cats = [cid in o['queue'], cid in o['started'], cid in o['closed']]
            if p == 15:
                bad.append((i, f'coroutine {cid} is in no recognisable state ({st})'))
            if sum(cats) != 1:
                bad.append((i, f'coroutine {cid} is lost or counted twice: queued={cats[0]} started={cats[1]} closed={cats[2]}'))
                continue
            entered = bool(x & 32)
            if cats[0] and (st != 'CORO_CREATED' or entered):
                bad.append((i, f'queued coroutine {cid} is {st}'))
            if cats[2] and (st != 'CORO_CLOSED' or entered):
                bad.append((i, f'dropped coroutine {cid} was not closed unstarted ({st}, entered={entered})'))
            if cats[1] and p < 3:
                bad.append((i, f'coroutine {cid} has a task but looks unstarted'))


def _order(r, i: int) -> list[int]:
    return [s['cid'] for s in r['sub'] if s['ev'] <= i]


def _loop_errors(r, bad) -> None:
    for evi, msg, exc in r['errors']:
        bad.append((evi, f'the event loop reported an error: {msg} ({exc})'))


# ---------------------------------------------------------------------------------------------------
def c11(r) -> list:
    bad: list = []
    mgr = r['case']['mgr']
    evs = r['case']['evs']
    _loop_errors(r, bad)
    _conservation(r, bad)
    # one at a time: bodies (entry/exit log) and tasks
    active: set[int] = set()
    for kind, cid, evi in r['log']:
        if kind == 'enter':
            if active:
                bad.append((evi, f'body of {cid} entered while {sorted(active)} had not finished'))
            active.add(cid)
        else:
            active.discard(cid)
    keys = {s['cid']: s['key'] for s in r['sub']}
    for i, o in enumerate(r['obs']):
        order = _order(r, i)
        live = [c for c, x in zip(order, o['cids']) if _live(_code(x))]
        if len(live) > 1:
            bad.append((i, f'two tasks at once: {live}'))
        if live and o['running'] != live[0]:
            bad.append((i, f'live task {live[0]} is not manager.task ({o["running"]})'))
        if o['running'] is None and o['queue']:
            bad.append((i, f'manager idle (task is None) with {o["queue"]} queued'))
        # in order: started ++ queued = the submissions that were not dropped; bodies entered in that order
        surv = [c for c in order if c not in o['closed']]
        if o['started'] + o['queue'] != surv:
            bad.append((i, f'start order {o["started"]} + queue {o["queue"]} is not the submission order of the survivors {surv}'))
        ent = [c for c, x in zip(order, o['cids']) if x & 32]
        if o['entlog'] != [c for c in o['started'] if c in ent]:
            bad.append((i, f'bodies entered in the order {o["entlog"]}, started {o["started"]}'))
        if mgr[0] == 'seqlim' and len(o['queue']) > mgr[1]:
            bad.append((i, f'queue {o["queue"]} longer than max_queue={mgr[1]}'))
        if mgr[0] == 'dedup':
            if len(set(o['qkeys'])) != len(o['qkeys']):
                bad.append((i, f'two pending coroutines for one key: {o["qkeys"]}'))
            for c, k in zip(o['queue'], o['qkeys']):
                newer = [d for d in order[order.index(c) + 1:] if keys[d] == k]
                if keys[c] != k or newer:
                    bad.append((i, f'pending coroutine {c} for key {k} is not the newest submission ({newer})'))
        # progress: the done-callback of the running task hands over to the head of the queue
        if i > 0 and evs[i][0] in ('run', 'tick') and not o['flag']:
            prev = r['obs'][i - 1]
            if prev['ready'] and prev['ready'][0] % 2 == 1 and prev['ready'][0] // 2 == prev['running']:
                if prev['queue']:
                    if o['running'] != prev['queue'][0] or o['queue'] != prev['queue'][1:]:
                        bad.append((i, f'done-callback of {prev["running"]} did not start the head of {prev["queue"]}: '
                                       f'task={o["running"]} queue={o["queue"]}'))
                elif o['running'] is not None:
                    bad.append((i, 'done-callback with an empty queue left a task'))
        # completion / failure / cancellation always leads to the hand-over: it is scheduled
        if o['running'] is not None and o['running'] in order:
            p = _code(o['cids'][order.index(o['running'])])
            want = {3: 2 * o['running'], 6: 2 * o['running'], 7: 2 * o['running'], 8: 2 * o['running'],
                    9: 2 * o['running'] + 1, 10: 2 * o['running'] + 1, 11: 2 * o['running'] + 1}.get(p)
            if want is not None and want not in o['ready']:
                bad.append((i, f'task {o["running"]} (phase {p}) has no handle in the ready queue'))
            if p >= 12:
                bad.append((i, f'manager.task {o["running"]} is finished and its done-callback has run'))
    # victim exactness, per create_task call
    for s in r['sub']:
        i, cid, q0, q1 = s['ev'], s['cid'], s['q0'], s['q1']
        if s.get('raised'):
            bad.append((i, f'create_task({cid}) raised {s["raised"]} (a submission is handled as the policy says, it never raises)'))
        idle_start = s['run0'] is None and not q0
        plain = (s['closed'] == [] and ((q1 == q0 + [cid] and s['started'] == [] and not idle_start)
                                        or (idle_start and q1 == [] and s['started'] == [cid] and s['run1'] == cid)))
        if mgr[0] == 'seq':
            ok = plain
        elif mgr[0] == 'seqlim':
            if len(q0) < mgr[1]:
                ok = plain
            elif mgr[2] == 'skip':
                ok = s['closed'] == [cid] and q1 == q0 and s['started'] == []
            elif mgr[2] == 'skip_first':
                ok = s['closed'] == [q0[0]] and q1 == q0[1:] + [cid] and s['started'] == []
            else:
                ok = s['closed'] == [q0[-1]] and q1 == q0[:-1] + [cid] and s['started'] == []
            ok = ok and len(q1) <= mgr[1]
        else:
            same = [c for c in q0 if keys[c] == s['key']]
            if same:
                rest = [c for c in q0 if c not in same]
                ok = len(same) == 1 and s['closed'] == same and q1 == rest + [cid] and s['started'] == []
            else:
                ok = plain
        if not ok:
            bad.append((i, f'create_task({cid}, key={s["key"]}) with queue {q0}, task {s["run0"]}: queue became {q1}, '
                           f'closed {s["closed"]}, started {s["started"]}'))
    bad.sort(key=lambda t: t[0])
    return bad


# ---------------------------------------------------------------------------------------------------
def c12(r) -> list:
    bad: list = []
    mgr = r['case']['mgr']
    evs = r['case']['evs']
    lim = mgr[1] if mgr[0] == 'parlim' else None
    _loop_errors(r, bad)
    _conservation(r, bad)
    for i, o in enumerate(r['obs']):
        order = _order(r, i)
        tr = o['tracked']
        if lim is not None and len(tr) > lim:
            bad.append((i, f'{len(tr)} tasks tracked, limit {lim}'))
        if len(set(tr)) != len(tr):
            bad.append((i, f'task tracked twice: {tr}'))
        for c, x in zip(order, o['cids']):
            p = _code(x)
            if _live(p) and c not in tr and c not in o['mcanc']:
                bad.append((i, f'task {c} is alive (phase {p}) but the manager holds no reference to it'))
            if c in tr and not _live(p):
                bad.append((i, f'manager still tracks {c} (phase {p})'))
        if mgr[0] == 'par':
            if o['closed'] or o['mcanc']:
                bad.append((i, 'the unbounded manager dropped or cancelled something'))
            if sorted(o['started']) != sorted(order):
                bad.append((i, f'not every coroutine was started: {o["started"]} of {order}'))
        # release: after its done-callbacks ran, the task is forgotten
        if i > 0 and evs[i][0] in ('run', 'tick') and not o['flag']:
            prev = r['obs'][i - 1]
            ran = prev['ready'][:1] if evs[i][0] == 'run' else prev['ready']
            for h in ran:
                if h % 2 == 1 and h // 2 in tr:
                    bad.append((i, f'done-callback of {h // 2} ran but it is still tracked'))
    for s in r['sub']:
        i, cid, t0, t1 = s['ev'], s['cid'], s['t0'], s['t1']
        if s.get('raised'):
            bad.append((i, f'create_task({cid}) raised {s["raised"]} (a submission is handled as the policy says, it never raises)'))
        if lim is not None and len(t1) > lim:
            bad.append((i, f'create_task({cid}): {len(t1)} tasks tracked, limit {lim}'))
        plain = s['closed'] == [] and s['victims'] == [] and s['started'] == [cid] and s['ret'] == cid
        if mgr[0] == 'par':
            ok = plain and t1 == sorted(t0 + [cid])
        elif len(t0) < lim:
            ok = plain and t1 == t0 + [cid]
        elif mgr[2] == 'skip':
            ok = s['closed'] == [cid] and t1 == t0 and s['started'] == [] and s['victims'] == [] and s['ret'] is None
        else:
            v = t0[0] if mgr[2] == 'cancel_first' else t0[-1]
            rest = t0[1:] if mgr[2] == 'cancel_first' else t0[:-1]
            ok = (s['closed'] == [] and s['victims'] == [v] and t1 == rest + [cid] and s['started'] == [cid]
                  and s['victim_state'][0] in ('done', 'must_cancel', 'fut_cancelled'))
        if not ok:
            bad.append((i, f'create_task({cid}) with tracked {t0}: tracked became {t1}, closed {s["closed"]}, '
                           f'cancelled {s["victims"]} ({s["victim_state"]}), started {s["started"]}'))
    bad.sort(key=lambda t: t[0])
    return bad


ORACLES = {'C11': c11, 'C12': c12}
