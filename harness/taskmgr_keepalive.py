"""taskmgr_keepalive.py — C12 clause "keeps every task strongly referenced until it is done": a task suspended
on a future that nothing else references must survive a garbage collection while it is tracked by the manager.
Prints a JSON list of violations."""
import asyncio
import gc
import json
import sys
import weakref


async def probe(make_mgr, label):
    bad = []
    mgr = make_mgr()
    box, done = [], []

    async def coro(i):
        fut = asyncio.get_running_loop().create_future()
        box.append(weakref.ref(fut))
        await fut
        done.append(i)

    n = 3
    for i in range(n):
        mgr.create_task(coro(i))
    for _ in range(3):
        await asyncio.sleep(0)
    gc.collect()
    gc.collect()
    alive = [r() for r in box]
    if any(f is None for f in alive) or len(box) < (n if 'Limiting' not in label else 1):
        bad.append(f'{label}: a pending task (suspended on a future nobody else references) was garbage collected '
                   f'although the manager tracks it')
    for f in alive:
        if f is not None and not f.done():
            f.set_result(None)
    for _ in range(4):
        await asyncio.sleep(0)
    if not bad and len(done) != len(box):
        bad.append(f'{label}: {len(box)} coroutines were started but only {len(done)} finished after their futures resolved')
    if not bad and len(getattr(mgr, 'tasks', [])) != 0:
        bad.append(f'{label}: finished tasks are still tracked: {len(mgr.tasks)}')
    return bad


def second_loop(make_mgr, label):
    """one manager object serving two event loops one after the other (the module-level default task manager across two
    asyncio.run() calls): every coroutine handed over under the second loop is started and tracked until done there"""
    bad = []
    mgr = make_mgr()
    ran = []

    async def coro(tag):
        await asyncio.sleep(0)
        ran.append(tag)

    async def use(tag):
        mgr.create_task(coro(tag))
        for _ in range(4):
            await asyncio.sleep(0)

    try:
        asyncio.run(use('first'))
        asyncio.run(use('second'))
    except Exception as e:  # noqa: BLE001
        bad.append(f'{label}: create_task under a second event loop raised {type(e).__name__}: {e}')
        return bad
    if ran != ['first', 'second']:
        bad.append(f'{label}: coroutines run under two successive event loops: {ran}, expected first and second')
    if len(getattr(mgr, 'tasks', [])) != 0:
        bad.append(f'{label}: finished tasks are still tracked after the second loop: {len(mgr.tasks)}')
    return bad


def main() -> int:
    from eascheduler.task_managers import (LimitingParallelTaskManager, ParallelTaskManager, SequentialTaskManager)
    out = []
    out += second_loop(ParallelTaskManager, 'ParallelTaskManager')
    out += second_loop(lambda: LimitingParallelTaskManager(3, 'skip'), 'LimitingParallelTaskManager(3)')
    out += second_loop(SequentialTaskManager, 'SequentialTaskManager')
    out += asyncio.run(probe(ParallelTaskManager, 'ParallelTaskManager'))
    out += asyncio.run(probe(lambda: LimitingParallelTaskManager(3, 'skip'), 'LimitingParallelTaskManager(3)'))
    json.dump(out, sys.stdout)
    return 0


if __name__ == '__main__':
    sys.exit(main())
