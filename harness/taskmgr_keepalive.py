"""taskmgr_keepalive.py — C12 clause "keeps every task strongly referenced until it is done": a task suspended
on a future that nothing else references must survive a garbage collection while it is tracked by the manager.
Prints a JSON list of violations."""
import asyncio
import gc
import json
import sys
import weakref


async def probe(make_mgr, label):
    bad = []
    mgr = make_mgr()
    box, done = [], []

    async def coro(i):
        fut = asyncio.get_running_loop().create_future()
        box.append(weakref.ref(fut))
        await fut
        done.append(i)

    n = 3
    for i in range(n):
        mgr.create_task(coro(i))
    for _ in range(3):
        await asyncio.sleep(0)
    gc.collect()
    gc.collect()
    alive = [r() for r in box]
    if any(f is None for f in alive) or len(box) < (n if 'Limiting' not in label else 1):
        bad.append(f'{label}: a pending task (suspended on a future nobody else references) was garbage collected '
                   f'although the manager tracks it')
    for f in alive:
        if f is not None and not f.done():
            f.set_result(None)
    for _ in range(4):
        await asyncio.sleep(0)
    if not bad and len(done) != len(box):
        bad.append(f'{label}: {len(box)} coroutines were started but only {len(done)} finished after their futures resolved')
    if not bad and len(getattr(mgr, 'tasks', [])) != 0:
        bad.append(f'{label}: finished tasks are still tracked: {len(mgr.tasks)}')
    return bad


def main() -> int:
    from eascheduler.task_managers import LimitingParallelTaskManager, ParallelTaskManager
    out = []
    out += asyncio.run(probe(ParallelTaskManager, 'ParallelTaskManager'))
    out += asyncio.run(probe(lambda: LimitingParallelTaskManager(3, 'skip'), 'LimitingParallelTaskManager(3)'))
    json.dump(out, sys.stdout)
    return 0


if __name__ == '__main__':
    sys.exit(main())
