"""sched_impl.py — drive the real JobBuilder / AsyncScheduler / jobs / store under virtual time and
observe everything after every operation.  Used by the C01 C02 C07 C08 C09 C10 checks.

History format (JSON-able dict):
  t0       start instant (ns, multiple of the quantum)
  enabled  initial scheduler state
  store    attach an InMemoryStore to the builder
  fexec    [[j, k], ...]   callable of job j raises at its k-th start
  fcb      [[cb, k], ...]  callback cb raises at its k-th invocation
  ops      list of operations, each a list:
           ['once', t_ns, key] ['countdown', secs_ns, key] ['at', key, start_ns, iv_ns, [failing query indices]]
           ['cancel', j] ['pause', j] ['resume', j] ['reset', j] ['setcd', j, secs_ns] ['enable', bool]
           ['reg', j, 'u'|'f', cb] ['unreg', j, 'u'|'f', cb] ['adv', d_ns] ['wake'] ['early']
  Job selectors j are resolved against the jobs that exist (and have the right kind) when the operation
  is issued; the resolved ("concrete") history is returned and is what the model is run on.
"""
from __future__ import annotations

import asyncio
import json

from whenever import Instant, TimeDelta

from eascheduler.builder.jobs import JobBuilder
from eascheduler.builder.triggers import TriggerObject
from eascheduler.errors import errors as eerrors
from eascheduler.errors.handler import set_exception_handler
from eascheduler.executor.base import SyncExecutor
from eascheduler.job_stores import InMemoryStore
from eascheduler.jobs.base import JobBase
from eascheduler.producers.base import DateTimeProducerBase
from eascheduler.schedulers.async_scheduler import AsyncScheduler

from lib.vloop import drain, virtual_time

NCB = 4   # callback objects: 0,1 plain functions; 2,3 bound methods


class Runaway(BaseException):
    """the implementation produced an absurd number of events in one history (runaway re-execution)"""


class EvList(list):
    LIMIT = 5000

    def append(self, x) -> None:
        if len(self) >= self.LIMIT:
            raise Runaway()
        super().append(x)


class UserErr(Exception):
    def __init__(self, payload) -> None:
        super().__init__(str(payload))
        self.payload = payload


class UserGroup(ExceptionGroup):
    def __new__(cls, payload):
        self = super().__new__(cls, str(payload), [UserErr(payload), ValueError('second member')])
        self.payload = payload
        return self

    def derive(self, excs):
        return ExceptionGroup(self.message, excs)


def exc_name(e: BaseException) -> str:
    table = {
        eerrors.ScheduledRunInThePastError: 'EPast', eerrors.JobAlreadyFinishedError: 'EAlreadyFinished',
        eerrors.JobNotLinkedToSchedulerError: 'ENotLinked', eerrors.JobExecutionTimeIsNotSetError: 'ENotSet',
        eerrors.InfiniteLoopDetectedError: 'EInfiniteLoop', eerrors.LocationNotSetError: 'ELocationNotSet',
        KeyError: 'EKeyError', ValueError: 'EValueError', TypeError: 'ETypeError', UserErr: 'EUser',
    }
    for cls, name in table.items():
        if type(e) is cls:
            return name
    return 'EOther'


class ScriptProducer(DateTimeProducerBase):
    """grid trigger start + k*iv whose q-th query raises when scripted; copy() shares the script state"""
    __slots__ = ('spec', 'state', 'rt')

    def __init__(self, spec, state, rt) -> None:
        super().__init__()
        self.spec, self.state, self.rt = spec, state, rt

    def copy(self):
        return self

    def get_next(self, dt: Instant) -> Instant:
        j = self.state['j']
        k = self.state['k']
        self.state['k'] = k + 1
        self.rt.ev.append(['prod', j])
        if k in self.spec['fail']:
            raise UserErr(['prod', j])
        start, iv = self.spec['start'], self.spec['iv']
        t = dt.timestamp_nanos()
        return Instant.from_timestamp_nanos(start + ((t - start) // iv + 1) * iv)


class _CbHolder:
    def __init__(self, rt, cb) -> None:
        self.rt, self.cb = rt, cb

    def method(self, job) -> None:
        self.rt.callback(self.cb, job)


class Runtime:
    def __init__(self, case, clock, loop) -> None:
        self.case, self.clock, self.loop = case, clock, loop
        self.ev: list = EvList()
        self.ev_seen = 0
        self.opi = 0
        self.jobs: list[JobBase | None] = []     # model index -> job object (None: not recoverable)
        self.kinds: list[str] = []
        self.controls: list = []
        self.jobidx: dict[int, int] = {}
        self.tag2idx: dict[int, int] = {}
        self.exec_count: dict[int, int] = {}
        self.cb_count: dict[int, int] = {}
        self.fexec = {tuple(x) for x in case.get('fexec', [])}
        self.fcb = {tuple(x) for x in case.get('fcb', [])}
        self.raised: list = []                    # payloads of injected failures that really fired
        self.fns: dict = {}
        self.group_exc = bool(case.get('group_exc'))
        self.shared_exc = bool(case.get('shared_exc'))
        self._exc_cache: dict = {}
        self.ntags = 0
        holders = [_CbHolder(self, 2), _CbHolder(self, 3)]
        self._holders = holders
        self.cbs = [lambda job: self.callback(0, job), lambda job: self.callback(1, job), None, None]

    def exc(self, payload: list) -> UserErr:
        # user code may raise ONE exception object again and again (a cached error, a failed future that is awaited
        # repeatedly): every raise still has to reach the handler
        if self.group_exc:
            # an ExceptionGroup with two members (what a TaskGroup raises): it is ONE exception for the handler
            return UserGroup(payload)
        if not self.shared_exc:
            return UserErr(payload)
        return self._exc_cache.setdefault(json.dumps(payload), UserErr(payload))

    def cb_obj(self, cb: int):
        # bound methods are created afresh on every access, like user code does
        if cb >= 2:
            return self._holders[cb - 2].method
        return self.cbs[cb]

    def callback(self, cb: int, job) -> None:
        j = self.jobidx.get(id(job), 999)
        k = self.cb_count.get(cb, 0)
        self.cb_count[cb] = k + 1
        if job.status.value == 'finished':
            self.ev.append(['cbf', j, cb])
        else:
            nx = job.next_run.timestamp_nanos() if job.next_run is not None else None
            self.ev.append(['cbu', j, cb, job.status.value, nx])
        if (cb, k) in self.fcb:
            self.raised.append(['cb', cb])
            raise self.exc(['cb', cb])

    def handler(self, e: Exception) -> None:
        if isinstance(e, (UserErr, UserGroup)):
            self.ev.append(['handler', e.payload])
        else:
            self.ev.append(['handler', ['other', type(e).__name__]])

    def dispatch(self, what: str, *, tag: int) -> None:
        assert what == 'job'
        self.fns[tag]()

    def make_callable(self, tag: int, t_req):
        cell = {'t_req': t_req}

        def fn() -> None:
            j = self.tag2idx.get(tag, 1000 + tag)
            job = cell.get('job')
            if job is not None and job.next_run is not None:
                ann = job.next_run.timestamp_nanos()
            else:
                ann = cell['t_req'] if cell['t_req'] is not None else -1
            k = self.exec_count.get(j, 0)
            self.exec_count[j] = k + 1
            self.ev.append(['exec', j, self.clock.ns, ann, self.opi])
            if (j, k) in self.fexec:
                self.raised.append(['exec', j])
                raise self.exc(['exec', j])
        return fn, cell

    # ---------------------------------------------------------------------------------------------
    def observe(self, outcome: str, sched, store) -> dict:
        jobs = []
        for job in self.jobs:
            if job is None:
                jobs.append(['unknown', None])
            else:
                jobs.append([job.status.value, job.next_run.timestamp_nanos() if job.next_run is not None else None])
        evs = self.ev[self.ev_seen:]
        self.ev_seen = len(self.ev)
        # what the PUBLIC control objects report (status / next_run_datetime properties), and their equality
        reported = []
        eq_bad = []
        live = [(i, c) for i, c in enumerate(self.controls) if c is not None]
        for i, c in live:
            nrd = c.next_run_datetime
            reported.append([i, c.status.value, None if nrd is None else
                             [nrd.year, nrd.month, nrd.day, nrd.hour, nrd.minute, nrd.second, nrd.microsecond,
                              nrd.tzinfo is None]])
            twin = type(c)(c._job)
            if not (c == twin) or (c != twin) or c == object() or c == c._job:
                eq_bad.append([i, 'twin'])
        for (i, a), (j, b) in zip(live, live[1:]):
            if a == b or not (a != b):
                eq_bad.append([i, j])
        return {
            'out': outcome, 'reported': reported, 'ctl_eq_bad': eq_bad,
            'enabled': sched._enabled,
            'timer': self.loop.when_ns(sched.timer) if sched.timer is not None else None,
            'queue': [self.jobidx.get(id(j), 999) for j in sched.jobs],
            'jobs': jobs,
            'store': sorted(store._jobs.keys()) if store is not None else [],
            'evs': evs,
            'now': self.clock.ns,
        }


def _job_from_traceback(e: BaseException):
    tb = e.__traceback__
    found = None
    while tb is not None:
        for name in ('job', 'self'):
            v = tb.tb_frame.f_locals.get(name)
            if isinstance(v, JobBase):
                found = v
        tb = tb.tb_next
    return found


def _pick(rt: Runtime, sel: int, kinds: tuple[str, ...]):
    cand = [i for i, k in enumerate(rt.kinds) if k in kinds and rt.controls[i] is not None]
    if not cand:
        return None
    if sel in cand:
        return sel
    return cand[sel % len(cand)]


async def _run(case, clock, loop, rt: Runtime, concrete_ops: list, obs: list) -> None:
    sched = AsyncScheduler(enabled=case['enabled'])
    store = InMemoryStore() if case['store'] else None
    builder = JobBuilder(sched, lambda f, a, k: SyncExecutor(f, a, k), store)
    set_exception_handler(rt.handler)
    already = bool(case.get('concrete'))

    for op in case['ops']:
        kind = op[0]
        outcome = 'Done'
        cop = list(op)
        try:
            if kind in ('once', 'countdown', 'at'):
                tag = rt.ntags
                rt.ntags += 1
                idx = len(rt.jobs)
                rt.tag2idx[tag] = idx
                key = op[2] if kind != 'at' else op[1]
                inner, cell = rt.make_callable(tag, op[1] if kind == 'once' else None)
                rt.fns[tag] = inner
                # every job gets the SAME callable and the same positional argument; the jobs differ in the VALUE of a keyword
                # argument only (what a user does with one handler function for many devices)
                fn, fargs, fkw = rt.dispatch, ('job',), {'tag': tag}
                ctrl = None
                state = None
                try:
                    if kind == 'once':
                        ctrl = builder.once(Instant.from_timestamp_nanos(op[1]), fn, *fargs, job_id=key, **fkw)
                    elif kind == 'countdown':
                        ctrl = builder.countdown(TimeDelta(nanoseconds=op[1]), fn, *fargs, job_id=key, **fkw)
                    else:
                        state = {'j': idx, 'k': 0}
                        trig = TriggerObject(ScriptProducer({'start': op[2], 'iv': op[3], 'fail': set(op[4])}, state, rt))
                        ctrl = builder.at(trig, fn, *fargs, job_id=key, **fkw)
                except Exception as e:  # noqa: BLE001
                    outcome = exc_name(e)
                    allocated = outcome not in ('EKeyError', 'EValueError')
                    if allocated:
                        job = _job_from_traceback(e)
                        rt.jobs.append(job)
                        rt.kinds.append(kind)
                        rt.controls.append(None)
                        if job is not None:
                            rt.jobidx[id(job)] = idx
                            cell['job'] = job
                    else:
                        del rt.tag2idx[tag]
                    del e
                else:
                    job = ctrl._job
                    rt.jobs.append(job)
                    rt.kinds.append(kind)
                    rt.controls.append(ctrl)
                    rt.jobidx[id(job)] = idx
                    cell['job'] = job
            elif kind in ('cancel', 'pause', 'resume', 'reset', 'setcd', 'reg', 'unreg'):
                need = {'cancel': ('once', 'countdown', 'at'), 'pause': ('countdown', 'at'), 'resume': ('at',),
                        'reset': ('countdown',), 'setcd': ('countdown',),
                        'reg': ('once', 'countdown', 'at'), 'unreg': ('once', 'countdown', 'at')}[kind]
                j = _pick(rt, op[1], need)
                if j is None or (already and j != op[1]):
                    cop = ['adv', 0]
                else:
                    cop[1] = j
                    ctrl = rt.controls[j]
                    if kind == 'cancel':
                        ctrl.cancel()
                    elif kind == 'pause':
                        (ctrl.pause if rt.kinds[j] == 'at' else ctrl.stop)()
                    elif kind == 'resume':
                        ctrl.resume()
                    elif kind == 'reset':
                        ctrl.reset()
                    elif kind == 'setcd':
                        ctrl.set_countdown(TimeDelta(nanoseconds=op[2]).in_seconds())
                    elif kind in ('reg', 'unreg'):
                        h = ctrl._job.on_update if op[2] == 'u' else ctrl._job.on_finished
                        (h.register if kind == 'reg' else h.remove)(rt.cb_obj(op[3]))
            elif kind == 'enable':
                sched.set_enabled(op[1])
            elif kind == 'adv':
                clock.advance(max(0, op[1]))
            elif kind == 'wake':
                await drain(loop)
            elif kind == 'early':
                if (h := sched.timer) is not None:
                    cb, args = h._callback, h._args
                    h.cancel()
                    cb(*args)
            else:
                raise AssertionError(kind)
        except Exception as e:  # noqa: BLE001
            outcome = exc_name(e)
        concrete_ops.append(cop)
        obs.append(rt.observe(outcome, sched, store))
        rt.opi += 1

    # leave nothing armed
    if sched.timer is not None:
        sched.timer.cancel()


def run_history(case: dict) -> tuple[dict, list[dict], list]:
    """-> (concrete case, observation per op, payloads of injected failures that fired)"""
    concrete_ops: list = []
    obs: list = []
    with virtual_time(case['t0']) as (clock, loop):
        rt = Runtime(case, clock, loop)
        asyncio.set_event_loop(loop)
        try:
            loop.run_until_complete(_run(case, clock, loop, rt, concrete_ops, obs))
        except Runaway:
            # cut the history here; the missing observations make it a disagreement and an oracle violation
            concrete_ops.append(list(case['ops'][len(obs)]) if len(obs) < len(case['ops']) else ['wake'])
            obs.append({'out': 'Runaway', 'enabled': True, 'timer': None, 'queue': [], 'jobs': [], 'store': [],
                        'evs': list(rt.ev[rt.ev_seen:rt.ev_seen + 40]), 'now': clock.ns})
            del concrete_ops[len(obs):]
        finally:
            asyncio.set_event_loop(None)
            from eascheduler.errors.handler import default_exception_handler
            set_exception_handler(default_exception_handler)
    ccase = dict(case)
    ccase['ops'] = concrete_ops
    ccase['concrete'] = True
    return ccase, obs, rt.raised
