"""getinstant_runner.py — subprocess entry (TZ=<zone> set by the parent): run C19 cases on the implementation.
All calls are issued from inside a running event loop (lib.vloop), each under its own patched clock."""
import json
import resource
import sys
import time


def main() -> int:
    resource.setrlimit(resource.RLIMIT_AS, (6 << 30, 6 << 30))
    time.tzset()
    from harness.getinstant_impl import run_case
    from lib.vloop import virtual_time
    cases = json.load(open(sys.argv[1]))
    out = []
    start = cases[0]['now'] if cases else 0
    with virtual_time(start) as (_clock, loop):
        async def go():
            for c in cases:
                out.append(run_case(c))
        loop.run_until_complete(go())
    json.dump(out, open(sys.argv[2], 'w'))
    return 0


if __name__ == '__main__':
    sys.exit(main())
