"""bld.py — C15: triggers and filters are pure values, builders have no side effects.  Random builder programs run
through the public API; after every call the structure of every existing object is compared with the pure model
(Builder.v, evaluated in Coq); a Python oracle checks non-mutation, non-sharing and query purity directly."""
from __future__ import annotations

import collections
import json
import random
import re
import subprocess
from pathlib import Path

from harness import prod_coq
from harness.prod_gen import DAY, HOUR, MIN, NS
from lib import coqrun

VERIF = Path(__file__).resolve().parent.parent
COQ_TARGETS = ['theories/Builder.vo']
COUNTS = {'quick': 160, 'thorough': 3000}
ASSUMPTIONS = {'C15': [
    'jitter evaluated with a fixed random source (draw 0.5)',
    'an interval trigger without start is defined from its first query on (its grid is anchored there)',
    'sun triggers: query independence is proved for the model in SunFacts.v / checked by the C18 correspondence',
]}
SK = ['skip', 'earlier', 'later', 'after']
RP = ['skip', 'earlier', 'later', 'twice']


def fixed_progs() -> list:
    """programs that run first: a bound with policy 'twice' in the repeated hour over a time of day in the same hour, asked
    before, between and after the two passes on the day itself (an object with a history must answer like a fresh one)"""
    fold = 1761440400 * NS                       # 2025-10-26T01:00Z: Europe/Berlin goes from 03:00 CEST back to 02:00 CET
    probes = [fold + d * MIN for d in (-150, -45, -20, 25, 50, 130)]
    h = 3600 * NS
    out = []
    for base_rp in ('earlier', 'later', 'twice'):
        ops = [['time', 2 * h + 45 * MIN, 'later', base_rp],
               ['earliest', 0, 2 * h + 30 * MIN, 'later', 'twice'],
               ['latest', 0, 2 * h + 30 * MIN, 'later', 'twice'],
               ['earliest', 0, 2 * h + 50 * MIN, 'later', 'twice']]
        out.append({'ops': ops, 'probes': probes})
    return out


def gen_prog(rng: random.Random) -> dict:
    ops = []
    kinds = []          # 't' | 'f'
    t0 = 1735689600 * NS + rng.randrange(0, 400) * DAY
    # a third of the programs live on a day on which Europe/Berlin (the zone of these runs) repeats or skips 02:00-03:00:
    # times of day and bounds fall into that hour, the probes walk through the day (an object with a history must
    # answer like a fresh one there too)
    dst_day = rng.choice([None, None, 1761440400, 1743296400])       # 2025-10-26T01:00Z / 2025-03-30T01:00Z

    def tod():
        if dst_day is not None and rng.random() < 0.7:
            return (2 * 3600 + rng.randrange(0, 60) * 60) * NS
        return rng.randrange(0, 86400) * NS

    def trigs():
        return [i for i, k in enumerate(kinds) if k == 't']

    def filts():
        return [i for i, k in enumerate(kinds) if k == 'f']

    n = rng.choice([6, 10, 15, 22])
    while len(ops) < n:
        p = rng.random()
        T, Fi = trigs(), filts()
        if not T or p < 0.18:
            if rng.random() < 0.5:
                ops.append(['time', tod(), rng.choice(SK), rng.choice(RP)]); kinds.append('t')
            else:
                ops.append(['interval', rng.choice([None, t0, t0 - 5 * HOUR]), rng.choice([HOUR, 90 * MIN, DAY, 37 * MIN + 11 * NS])]); kinds.append('t')
        elif p < 0.36 or not Fi:
            k = rng.choice(['ftime', 'weekday', 'day', 'month', 'weekday'])
            if k == 'ftime':
                a, b = sorted([rng.randrange(0, 86400) * NS, rng.randrange(0, 86400) * NS])
                ops.append(['ftime', a, b if b > a else None])
            elif k == 'weekday':
                ops.append(['weekday', sorted(rng.sample(range(1, 8), rng.choice([1, 2, 5])))])
            elif k == 'day':
                ops.append(['day', sorted(rng.sample(range(1, 29), rng.choice([1, 5, 20])))])
            else:
                ops.append(['month', sorted(rng.sample(range(1, 13), rng.choice([1, 3, 10])))])
            kinds.append('f')
        elif p < 0.46:
            k = rng.choice(['any', 'all', 'not'])
            if k == 'not':
                ops.append(['not', rng.choice(Fi)])
            else:
                ops.append([k, [rng.choice(Fi) for _ in range(rng.choice([1, 2, 3]))]])
            kinds.append('f')
        elif p < 0.66:
            # the operation the property is about: derive a filtered trigger, then keep using the original
            i = rng.choice(T)
            ops.append(['only_on', i, rng.choice(Fi), rng.random() < 0.5]); kinds.append('t')
        elif p < 0.74:
            ops.append(['group', [rng.choice(T) for _ in range(rng.choice([1, 2, 3]))]]); kinds.append('t')
        else:
            i = rng.choice(T)
            k = rng.choice(['offset', 'earliest', 'latest', 'jitter'])
            if k == 'offset':
                ops.append(['offset', i, rng.choice([HOUR, -HOUR, 30 * NS, -90 * MIN])])
            elif k == 'jitter':
                lo = rng.choice([0, 10 * NS, -60 * NS, -90 * NS])
                ops.append(['jitter', i, lo, rng.choice([60 * NS, 120 * NS] + ([0] if lo < 0 else []))])
            else:
                ops.append([k, i, tod(), rng.choice(SK), rng.choice(RP)])
            kinds.append('t')
        # an only_on on a trigger that already has a filter raises and the slot becomes an error object
        if ops[-1][0] == 'only_on':
            pass
    probes = [t0 + rng.randrange(0, 30) * DAY + rng.randrange(0, 86400) * NS for _ in range(2)]
    if dst_day is not None:
        probes = [dst_day * NS + d * MIN for d in (-150, -45, -20, 25, 50, 130)]
    return {'ops': ops, 'probes': probes}


def coq_bop(op) -> str:
    z, optz, zlist = prod_coq.z, prod_coq.optz, prod_coq.zlist
    nl = lambda l: '[' + '; '.join(f'{i}%nat' for i in l) + ']'
    k = op[0]
    if k == 'time':
        return f'BTime {prod_coq.tr(op[1], op[2], op[3])}'
    if k == 'interval':
        return f'BInterval {optz(op[1])} {z(op[2])}'
    if k == 'group':
        return f'BGroup {nl(op[1])}'
    if k == 'offset':
        return f'BOffset {op[1]}%nat {z(op[2])}'
    if k in ('earliest', 'latest'):
        return f'{"BEarliest" if k == "earliest" else "BLatest"} {op[1]}%nat {prod_coq.tr(op[2], op[3], op[4])}'
    if k == 'jitter':
        return f'BJitter {op[1]}%nat {z(op[2])} {z(op[3])}'
    if k == 'only_on':
        return f'BOnlyOn {op[1]}%nat {op[2]}%nat'
    if k in ('any', 'all'):
        return f'{"FbAny" if k == "any" else "FbAll"} {nl(op[1])}'
    if k == 'not':
        return f'FbNot {op[1]}%nat'
    if k == 'ftime':
        return f'FbTime {optz(op[1])} {optz(op[2])}'
    if k == 'weekday':
        return f'FbWeekday {zlist(op[1])}'
    if k == 'day':
        return f'FbDay {zlist(op[1])}'
    if k == 'month':
        return f'FbMonth {zlist(op[1])}'
    raise ValueError(k)


def coq_obj(o) -> str:
    if o[0] == 'trig':
        if 'unknown' in json.dumps(o[1]):
            return 'OErr'
        return f'OTrig {prod_coq.coq_expr(o[1], prod_coq.Ids())}'
    if o[0] == 'filt':
        if o[1] is None or 'unknown' in json.dumps(o[1]):
            return 'OErr'
        return f'OFilt {prod_coq.coq_filter(o[1])}'
    return 'OErr'


def cases_file(results: list) -> str:
    body = []
    for r in results:
        snaps = ';\n     '.join('[' + '; '.join(coq_obj(o) for o in s) + ']' for s in r['snaps'])
        body.append('{| bc_ops := [%s];\n   bc_snapshots := [%s] |}' % ('; '.join(coq_bop(o) for o in r['ops']), snaps))
    return ('From EAS Require Import Base Civil Time Filters Replace Producers Builder.\n'
            'Definition cases : list bcase := [\n' + ';\n'.join(body) + '\n].\n'
            'Eval vm_compute in (bmismatches cases).\n')


def oracle(r: dict) -> list:
    bad = []
    first_seen = {}
    for k, snap in enumerate(r['snaps']):
        for i, o in enumerate(snap):
            if i in first_seen:
                if o != first_seen[i]:
                    bad.append(f'call {k} ({r["ops"][k][0]}) changed object {i}: {json.dumps(first_seen[i])[:160]} -> '
                               f'{json.dumps(o)[:160]}')
            else:
                first_seen[i] = o
    for a, b in r['shared'][:1]:
        bad.append(f'builder objects {a} and {b} share a producer / filter object')
    for i, dt, a, b, c, orig in r['queries']:
        if a != b and 'budget' not in (a[0], b[0]):
            bad.append(f'object {i}: get_next({dt}) answered {a}, after other queries {b}')
        if c is not None and a != c and a[0] == 'ok' and c[0] == 'ok':
            bad.append(f'object {i}: get_next({dt}) answered {a}, a freshly built equal trigger answers {c}')
        if a != orig and a[0] == 'ok' and orig[0] == 'ok':
            bad.append(f'object {i}: a copy answered get_next({dt}) = {a}, the object itself {orig}')
    for msg in r.get('holiday_probe', []):
        bad.append(msg)
    for i, dt, x, y in r.get('late', []):
        if x != y and x[0] == 'ok' and y[0] == 'ok':
            bad.append(f'object {i}: a copy taken after the object had been queried answers get_next({dt}) = {x}, '
                       f'the object itself {y}')
    return bad


def _impl(cases, scratch: Path, tag: str) -> list:
    inp, outp = scratch / f'bin_{tag}.json', scratch / f'bout_{tag}.json'
    inp.write_text(json.dumps(cases))
    env = {'PYTHONPATH': f'{coqrun.REPO}/src:{VERIF}', 'PYTHONHASHSEED': '0', 'PATH': '/usr/bin:/bin', 'TZ': 'Europe/Berlin'}
    r = subprocess.run(['/venv/bin/python', '-u', '-m', 'harness.bld_runner', str(inp), str(outp)], cwd=VERIF, env=env,
                       capture_output=True, text=True, timeout=1800)
    if r.returncode != 0:
        raise RuntimeError('builder runner failed: ' + r.stderr[-3000:])
    return json.loads(outp.read_text())


def run(prop: str, tier: str, seed: int, scratch: Path, replay=None, model_ok=True) -> dict:
    rng = random.Random(f'{prop}-{seed}')
    if replay:
        cases = [json.loads(Path(replay).read_text())['case']]
    else:
        cases = fixed_progs() + [gen_prog(rng) for _ in range(COUNTS[tier])]
        cases[0]['with_holiday_probe'] = True
    from concurrent.futures import ThreadPoolExecutor
    # at most 40 programs per interpreter: whenever's SystemDateTime(**kwargs) never frees its result (about 10 MB per
    # program here), a long-lived runner would hit its address-space limit in the thorough tier
    if len(cases) <= 8 * 40:
        chunks = [cases[i::8] for i in range(8)]
    else:
        chunks = [cases[i:i + 40] for i in range(0, len(cases), 40)]
    with ThreadPoolExecutor(max_workers=8) as ex:
        parts = list(ex.map(lambda kc: _impl(kc[1], scratch, f'main{kc[0]}'), enumerate(chunks)))
    results = [r for part in parts for r in part]
    spec, corr = [], []
    dist = collections.Counter()
    nontriv = 0
    for r in results:
        for op in r['ops']:
            dist[op[0]] += 1
        if any(op[0] == 'only_on' for op in r['ops']) and len(r['ops']) >= 6:
            nontriv += 1
        bad = oracle(r)
        for msg in bad[:1]:
            spec.append({'what': msg, 'case': {'ops': r['ops'], 'probes': r['probes']}, 'observed': r['snaps'][-1][:6]})
    if model_ok:
        files = []
        shard = 40
        for s in range(0, len(results), shard):
            p = scratch / f'bc_{s // shard}.v'
            p.write_text(cases_file(results[s:s + shard]))
            files.append(p)
        for p, rc, out in coqrun.eval_cases(files):
            base = int(p.stem.split('_')[1]) * shard
            if rc != 0:
                corr.append({'file': p.name, 'error': out[-1500:]})
                continue
            m1 = re.search(r'= (\[.*?\]) : list \(nat \* nat\)', ' '.join(out.split()))
            if not m1:
                corr.append({'file': p.name, 'error': 'cannot parse'})
                continue
            for ci, k in coqrun.parse_pairs(m1.group(1)):
                r = results[base + ci]
                corr.append({'case': {'ops': r['ops'], 'probes': r['probes']}, 'call_index': k, 'call': r['ops'][k],
                             'objects_after_call': r['snaps'][k]})
    else:
        corr.append({'error': 'model does not build'})
    return {
        'evaluations': len(results), 'distinct_nontrivial': nontriv,
        'rule': 'one case = a builder program of 6-22 public API calls; after every call all objects are described; '
                'non-trivial iff it derives at least one filtered trigger (only_on / only_at) from an existing one',
        'samples': [{'ops': results[0]['ops']}] if results else [],
        'corr_failures': corr, 'spec_violations': spec,
        'distribution': {'calls': dict(dist), 'queries_for_purity': sum(len(r['queries']) for r in results)},
    }


def search(prop: str, seed: int, scratch: Path) -> list:
    rng = random.Random(f'search-{prop}-{seed}')
    from concurrent.futures import ThreadPoolExecutor
    progs = fixed_progs() + [gen_prog(rng) for _ in range(1500)]
    chunks = [progs[i:i + 40] for i in range(0, len(progs), 40)]
    with ThreadPoolExecutor(max_workers=8) as ex:
        parts = list(ex.map(lambda kc: _impl(kc[1], scratch, f'search{kc[0]}'), enumerate(chunks)))
    results = [r for part in parts for r in part]
    out = []
    for r in results:
        for msg in oracle(r)[:1]:
            out.append({'what': msg, 'case': {'ops': r['ops'], 'probes': r['probes']}, 'observed': r['snaps'][-1][:6]})
    out.sort(key=lambda v: len(v['case']['ops']))
    return out
